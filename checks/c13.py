"""C13 — a finite lazy list is indistinguishable from the list it enumerates.

System under test: the real vyxal.LazyList.LazyList and vyxal.helpers.deep_copy.  A LazyList is a
memoising cursor shared by the object itself (next(L)), every generator iter(L) hands out and every
deep_copy (an itertools.tee over iter(L)).  Those are concurrent readers of one cursor; the
simulator interleaves observations across all handles and compares every return value with a plain
Python list.  No faults are injected: the statement is about observation histories only.
"""

from __future__ import annotations

from sim import core
from sim.core import OK, VIOLATION, DISCARD, sub_rng
from sim import repo

LIST_OBS = ["getitem", "getitem", "slice", "slice", "len", "bool", "contains", "eq_list", "eq_lazy", "count",
            "reversed", "iterate", "listify", "copy", "iter", "force", "h_has_ind", "h_concat", "h_scalarify", "h_iterable"]
REPRS = ["list", "gen", "iter", "range", "map", "tuple", "lazy", "lazycopy"]
# item kinds other than small ints: equal items, strings, nested lists (needles for contains / count are drawn from them)
ITEM_POOLS = {"eq": [1, 1, 1, 2], "str": ["a", "b", "ab", "a"], "nest": [[1], [1, 2], [], [1]], "mix": [0, "a", [1], 1, "a", [1]]}


class Unjudged(Exception):
    pass


def model_slice(src, a, b, c):
    return src[slice(a, b, c)]


def arg_class(ev, n):
    k = ev[0]
    if k == "getitem":
        i = ev[2]
        return "neg" if i < 0 else ("in" if i < n else "wrap")
    if k == "slice":
        def s(v):
            return "N" if v is None else ("-" if v < 0 else ("0" if v == 0 else ("+" if v <= n else ">")))
        return s(ev[2]) + s(ev[3]) + ("N" if ev[4] is None else ("-" if ev[4] < 0 else "+"))
    if k in ("contains", "count"):
        return "x"
    return ""


class C13(core.Check):
    id = "C13"
    title = "A finite lazy list is indistinguishable from the list it enumerates"
    tiers = {
        "quick": dict(runs=1_000_000, batch=5000, wall=70),
        "thorough": dict(runs=24_000_000, batch=10000, wall=800),
    }
    components_real = ["vyxal/LazyList.py (LazyList, every dunder and method exercised)", "vyxal/helpers.py deep_copy, "
                       "vyxalify, simplify"]
    components_stub = ["the source iterator handed to LazyList(...) is a harness-built list/generator/iter/range/map"]
    fault_kinds = []
    assumptions = [
        "observations on the empty list by index, and negative indices below -len, are undefined by the statement "
        "and generated but not judged",
        "next(L) on the list object itself is used as a scheduler action (force one item) and only its "
        "after-effects are judged",
        "slice step 0 is never generated",
    ]
    rule = ("one run = one source (length 0..8, small ints; 45% of runs in the statement's small scope: length 0..3 "
            "over {0,1,2}, history <= 4) in a seeded representation, plus a seeded interleaving of <= 12 observation "
            "events over all live handles (the list, its iterators, its deep copies and theirs). distinct = distinct "
            "(source, representation, event list) triples; non-trivial = at least one observation judged against the "
            "list model. Every handle is listified and compared at the end of each history.")

    def setup(self):
        m = repo.load()
        self.LazyList = m["LazyList"].LazyList
        self.deep_copy = m["helpers"].deep_copy
        self.helpers = m["helpers"]

    # ---------------------------------------------------------------- generation
    def gen(self, seed, run, tier):
        rw = sub_rng(seed, self.id, run, "workload")
        rs = sub_rng(seed, self.id, run, "schedule")
        small = rw.random() < 0.45
        if small:
            n = rw.randint(0, 3)
            src = [rw.randint(0, 2) for _ in range(n)]
            nev = rw.randint(1, 4)
        else:
            n = rw.choice([0, 1, 2, 3, 3, 4, 5, 6, 7, 8])
            hi = rw.choice([2, 3, 9])
            src = [rw.randint(0, hi) for _ in range(n)]
            nev = rw.randint(1, 12)
        rep = rw.choice(REPRS)
        pool = None
        if not small and rw.random() < 0.3 and rep != "range":
            pool = ITEM_POOLS[rw.choice(sorted(ITEM_POOLS))]
            src = [rw.choice(pool) for _ in range(n)]
        if rep == "range":
            a = rw.randint(0, 2)
            src = list(range(a, a + n))
        # swarm: a per-run subset of observation kinds
        kinds = sorted(set(LIST_OBS))
        if rw.random() < 0.6:
            k = rw.randint(2, len(kinds))
            kinds = rw.sample(kinds, k)
        weights = [LIST_OBS.count(k) for k in kinds]
        events, lists, iters, nxt = [], [0], [], 1
        pre = rw.choice([0, 0, 0, 1, 2, n, n + 1]) if not small else rw.choice([0, 0, 1])
        for _ in range(nev):
            if iters and rs.random() < 0.3:
                events.append(["next_it", rs.choice(iters)])
                continue
            h = rs.choice(lists)
            k = rs.choices(kinds, weights)[0]
            if k == "getitem":
                events.append([k, h, rs.randint(-n - 1, 2 * n + 2)])
            elif k == "slice":
                def pick(allow_none=True):
                    if allow_none and rs.random() < 0.3:
                        return None
                    return rs.randint(-n - 1, n + 2)
                c = rs.choice([None, None, 1, 1, 2, 3, -1, -1, -2])
                events.append([k, h, pick(), pick(), c])
            elif k in ("contains", "count"):
                events.append([k, h, rs.choice(pool) if pool else rs.randint(0, 3)])
            elif k == "h_has_ind":
                events.append([k, h, rs.randint(-2, n + 2)])
            elif k == "h_concat":
                events.append([k, h, [rs.randint(0, 3) for _ in range(rs.randint(0, 2))]])
            elif k == "eq_list":
                other = list(src)
                r = rs.random()
                if r < 0.3 and other:
                    j = rs.randrange(len(other))
                    other[j] = other[j] + 1 if isinstance(other[j], int) else 7
                elif r < 0.45:
                    other = other[:-1] if other else [0]
                elif r < 0.55:
                    other = other + [0]
                events.append([k, h, other])
            elif k == "eq_lazy":
                if rs.random() < 0.5 and len(lists) > 1:
                    events.append([k, h, "h", rs.choice(lists)])
                else:
                    other = list(src)
                    if rs.random() < 0.4:
                        other = other + [1] if rs.random() < 0.5 else other[:-1]
                    events.append([k, h, "new", other])
            elif k == "copy":
                events.append([k, h, nxt])
                lists.append(nxt)
                nxt += 1
            elif k == "iter":
                events.append([k, h, nxt])
                iters.append(nxt)
                nxt += 1
            else:
                events.append([k, h])
        return dict(src=src, repr=rep, pre=pre, events=events, small=small)

    # ---------------------------------------------------------------- execution
    def build(self, src, rep):
        if rep == "list":
            return self.LazyList(list(src))
        if rep == "gen":
            return self.LazyList(x for x in list(src))
        if rep == "iter":
            return self.LazyList(iter(list(src)))
        if rep == "range":
            return self.LazyList(range(src[0], src[0] + len(src)) if src else range(0))
        if rep == "map":
            return self.LazyList(map(lambda x: x, list(src)))
        if rep == "tuple":
            return self.LazyList(tuple(src))
        if rep == "lazy":
            return self.LazyList(self.LazyList(list(src)))          # a lazy list over another lazy list
        if rep == "lazycopy":
            return self.deep_copy(self.LazyList(iter(list(src))))    # what `:` leaves on the stack
        raise ValueError(rep)

    def norm(self, v):
        if isinstance(v, self.LazyList):
            return [self.norm(x) for x in v.listify()]
        if isinstance(v, (list, tuple)):
            return [self.norm(x) for x in v]
        if isinstance(v, bool):
            return int(v)
        return v

    def state_of(self, h, n):
        g = getattr(h, "generated", None)
        if not isinstance(g, list):
            return "?"
        return "fresh" if not g else ("full" if len(g) >= n else "part")

    def run(self, case):
        src = list(case["src"])
        n = len(src)
        LazyList = self.LazyList
        root = self.build(src, case["repr"])
        for _ in range(case.get("pre", 0)):
            try:
                next(root)
            except StopIteration:
                break
        handles = {0: ("list", root)}
        pos = {}
        log, cov, traj = [], set(), []
        judged = 0
        culprit = None

        def cache_ok():
            for hid, (kind, obj) in handles.items():
                if kind == "list":
                    g = getattr(obj, "generated", None)
                    if isinstance(g, list) and g != src[: len(g)]:
                        return False
            return True

        def fail(clause, ev, st, got, want):
            kind = ev[0]
            sig = f"{clause}:{kind}:{arg_class(ev, n)}:st={st}|culprit={culprit or '-'}"
            detail = f"src={src} repr={case['repr']} event={ev} got={got!r} want={want!r}"
            log.append(dict(violation=sig, got=repr(got), want=repr(want)))
            return dict(verdict=VIOLATION, sig=sig, detail=detail, log=log, steps=len(log), cov=sorted(cov),
                        hist=self.hist(case))

        events = list(case["events"])
        # end of history: every list handle still denotes src
        final = "final"
        idx = 0
        while True:
            if idx < len(events):
                ev = events[idx]
            elif final == "final":
                events = events + [["listify", hid] for hid, (k, _) in sorted(handles.items()) if k == "list"]
                final = "done"
                if idx >= len(events):
                    break
                ev = events[idx]
            else:
                break
            idx += 1
            kind = ev[0]
            ent = handles.get(ev[1])
            if ent is None:
                continue  # handle removed by shrinking: skip
            hk, h = ent
            if (kind == "next_it") != (hk == "iter"):
                continue
            st = self.state_of(h, n) if hk == "list" else "it"
            cov.add(f"{kind}:{arg_class(ev, n)}:{st}")
            want = got = None
            judge = True
            try:
                if kind == "next_it":
                    p = pos[ev[1]]
                    want = src[p] if p < n else "StopIteration"
                    try:
                        got = next(h)
                        pos[ev[1]] = p + 1
                    except StopIteration:
                        got = "StopIteration"
                elif kind == "force":
                    judge = False
                    try:
                        got = next(h)
                    except StopIteration:
                        got = "StopIteration"
                elif kind == "getitem":
                    i = ev[2]
                    if n == 0 or i < -n:
                        judge = False
                    else:
                        want = src[i] if i < n else src[i % n]
                    got = h[i]
                elif kind == "slice":
                    a, b, c = ev[2], ev[3], ev[4]
                    want = src[slice(a, b, c)]
                    got = self.norm(h[slice(a, b, c)])
                elif kind == "len":
                    want, got = n, len(h)
                elif kind == "bool":
                    want, got = int(bool(src)), int(bool(h))
                elif kind == "contains":
                    want, got = int(ev[2] in src), int(bool(ev[2] in h))
                elif kind == "eq_list":
                    want, got = int(src == ev[2]), int(bool(h == list(ev[2])))
                elif kind == "eq_lazy":
                    if ev[2] == "h":
                        o = handles.get(ev[3])
                        if o is None or o[0] != "list":
                            continue
                        want, got = 1, int(bool(h == o[1]))
                    else:
                        want, got = int(src == ev[3]), int(bool(h == LazyList(list(ev[3]))))
                elif kind == "count":
                    want, got = src.count(ev[2]), h.count(ev[2])
                elif kind == "reversed":
                    want, got = src[::-1], self.norm(h.reversed())
                elif kind == "iterate":
                    want, got = list(src), self.norm(list(h))
                elif kind == "listify":
                    want, got = list(src), self.norm(h.listify())
                elif kind == "h_has_ind":
                    want, got = int(0 <= ev[2] < n), int(bool(self.helpers.has_ind(h, ev[2])))
                elif kind == "h_concat":
                    want, got = list(src) + list(ev[2]), self.norm(self.helpers.concat(h, list(ev[2])))
                elif kind == "h_scalarify":
                    want = src[0] if n == 1 else list(src)
                    got = self.norm(self.helpers.scalarify(h))
                elif kind == "h_iterable":
                    want, got = list(src), self.norm(self.helpers.iterable(h))
                elif kind == "copy":
                    judge = False
                    if ev[2] in handles:
                        continue
                    handles[ev[2]] = ("list", self.deep_copy(h))
                    got = "handle"
                elif kind == "iter":
                    judge = False
                    if ev[2] in handles:
                        continue
                    handles[ev[2]] = ("iter", iter(h))
                    pos[ev[2]] = 0
                    got = "handle"
                else:
                    continue
            except Exception as e:  # the list model never raises on a judged observation
                log.append(dict(ev=ev, st=st, raised=repr(e)))
                if not judge and kind in ("getitem",):
                    continue
                if culprit is None and not cache_ok():
                    culprit = f"{kind}:{arg_class(ev, n)}"
                return fail("raises", ev, st, repr(e), want)
            log.append(dict(ev=ev, st=st, got=got if not isinstance(got, list) or len(got) < 20 else got[:20]))
            g = getattr(root, "generated", None)
            traj.append(len(g) if isinstance(g, list) else -1)
            if culprit is None and not cache_ok():
                culprit = f"{kind}:{arg_class(ev, n)}"
            if judge:
                judged += 1
                if got != want:
                    return fail("value", ev, st, got, want)
        cov.add("traj:" + ",".join(map(str, traj[:12])))
        return dict(verdict=OK if judged else DISCARD, sig="" if judged else "nothing-judged", log=log,
                    steps=len(log), cov=sorted(cov), hist=self.hist(case),
                    probes={"small_scope": int(bool(case.get("small"))), "copies": sum(1 for e in case["events"] if e[0] == "copy")})

    def hist(self, case):
        return core.digest([case["src"], case["repr"], case.get("pre", 0), case["events"]])

    # ---------------------------------------------------------------- shrinking
    def shrink(self, case):
        yield from core.shrink_events(case)
        if case.get("pre"):
            yield dict(case, pre=0)
            yield dict(case, pre=case["pre"] - 1)
        if case["repr"] != "list":
            yield dict(case, repr="list")
        src = case["src"]
        if case["repr"] != "range":
            for i in range(len(src)):
                yield dict(case, src=src[:i] + src[i + 1:])
            for i, x in enumerate(src):
                if not isinstance(x, int) or x > 0:
                    yield dict(case, src=src[:i] + [0] + src[i + 1:])
        for j, ev in enumerate(case["events"]):
            for k in range(2, len(ev)):
                v = ev[k]
                if isinstance(v, int) and not isinstance(v, bool) and ev[0] in ("getitem", "slice", "contains", "count", "h_has_ind"):
                    for nv in sorted({0, v // 2, v - 1 if v > 0 else v + 1} - {v}, key=abs):
                        if ev[0] == "slice" and k == 4 and nv == 0:
                            continue  # a slice step of 0 is never generated
                        ne = list(ev)
                        ne[k] = nv
                        yield dict(case, events=case["events"][:j] + [ne] + case["events"][j + 1:])
                    if ev[0] == "slice" and v is not None:
                        ne = list(ev)
                        ne[k] = None
                        yield dict(case, events=case["events"][:j] + [ne] + case["events"][j + 1:])


CHECK = C13()
