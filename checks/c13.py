"""C13 — a finite lazy list is indistinguishable from the list it enumerates.

System under test: the real vyxal.LazyList.LazyList and vyxal.helpers (deep_copy, has_ind, concat,
scalarify, iterable).  A LazyList is a memoising cursor shared by the object itself (next(L)), every
generator iter(L) hands out, every deep_copy (an itertools.tee over iter(L)) and every lazy list
derived from it (an open-stop slice, a reversed view, a concatenation).  Those are concurrent readers
of one cursor; the simulator interleaves observations across all handles and compares every return
value with a plain Python list.  No faults are injected: the statement is about observation
histories only.

Items are given as specs so that a case is JSON: ints, strings, lists, ["f", "0.5"] (a Python float
in the source), ["b", true] (a bool), ["t", [...]] (a tuple), ["g", [...]] (a nested generator),
["q", n, d] (a sympy Rational).  "The list it enumerates" is the list of the *Vyxal values* of those
items (what vyxalify makes of them): 1/2, "True", [..], [..], n/d.
"""

from __future__ import annotations

from fractions import Fraction

from sim import core
from sim.core import OK, VIOLATION, DISCARD, sub_rng
from sim import repo, world

LIST_OBS = ["getitem", "getitem", "slice", "slice", "len", "bool", "contains", "eq_list", "eq_lazy", "count",
            "reversed", "iterate", "listify", "copy", "iter", "force", "h_has_ind", "h_concat", "h_scalarify", "h_iterable",
            "mkslice", "mkrev", "mkadd", "mkwrap", "order"]
REPRS = ["list", "gen", "iter", "range", "map", "tuple", "lazy", "lazycopy", "filter", "zip", "flagged"]
BIG = 3333333333333333
ITEM_POOLS = {
    "eq": [1, 1, 1, 2],
    "str": ["a", "b", "ab", "a"],
    "nest": [[1], [1, 2], [], [1]],
    "mix": [0, "a", [1], 1, "a", [1]],
    # items vyxalify has to convert when they are produced
    "conv": [["f", "0.5"], ["b", True], ["t", [1, 2]], ["g", [1, 2]], 1, ["f", "2.0"], ["b", False], ["t", []]],
    # exact rationals, some closer together than a double can resolve
    "rat": [["q", 1, 2], ["q", 1, 3], ["q", BIG, 10 ** 16], ["q", 2 ** 53 + 1, 2], 2 ** 52, 1, ["q", 10 ** 17 + 1, 10 ** 17]],
}


def mval(x):
    """model (Vyxal) value of an item spec, in world.to_model's normal form"""
    if isinstance(x, list):
        if x and x[0] == "f" and len(x) == 2 and isinstance(x[1], str):
            f = Fraction(x[1])
            return f.numerator if f.denominator == 1 else ["q", f.numerator, f.denominator]
        if x and x[0] == "b" and len(x) == 2 and isinstance(x[1], bool):
            return str(x[1])
        if x and x[0] in ("t", "g") and len(x) == 2 and isinstance(x[1], list):
            return [mval(y) for y in x[1]]
        if x and x[0] == "q" and len(x) == 3:
            f = Fraction(x[1], x[2])
            return f.numerator if f.denominator == 1 else ["q", f.numerator, f.denominator]
        return [mval(y) for y in x]
    return x


def arg_class(ev, n):
    k = ev[0]
    if k == "getitem":
        i = ev[2]
        return "neg" if i < 0 else ("in" if i < n else "wrap")
    if k in ("slice", "mkslice"):
        def s(v):
            return "N" if v is None else ("-" if v < 0 else ("0" if v == 0 else ("+" if v <= n else ">")))
        if k == "mkslice":
            return s(ev[2]) + "N" + ("N" if ev[3] is None else "+")
        return s(ev[2]) + s(ev[3]) + ("N" if ev[4] is None else ("-" if ev[4] < 0 else "+"))
    if k in ("contains", "count"):
        return "x"
    return ""


class C13(core.Check):
    id = "C13"
    title = "A finite lazy list is indistinguishable from the list it enumerates"
    tiers = {
        "quick": dict(runs=600_000, batch=5000, wall=70),
        "thorough": dict(runs=16_000_000, batch=10000, wall=800),
    }
    components_real = ["vyxal/LazyList.py (LazyList, every dunder and method exercised)", "vyxal/helpers.py deep_copy, "
                       "vyxalify, simplify, has_ind, concat, scalarify, iterable"]
    components_stub = ["the source iterator handed to LazyList(...) is a harness-built list / generator / iter / range / map / "
                       "filter / zip / tuple / lazy list / deep copy"]
    fault_kinds = []
    assumptions = [
        "observations on the empty list by index, and negative indices below -len, are undefined by the statement "
        "and generated but not judged",
        "next(L) on the list object itself is used as a scheduler action (force one item) and only its "
        "after-effects are judged",
        "slice step 0 is never generated",
        "the list a lazy list enumerates is the list of the Vyxal values of what its source yields (floats are exact "
        "rationals, bools are strings, tuples and generators are lists)",
    ]
    rule = ("one run = one source (length 0..8; small ints, or equal items / strings / nested lists / items that need "
            "conversion / close rationals; 45% of runs in the statement's small scope: length 0..3 over {0,1,2}, history "
            "<= 4) in a seeded representation, plus a seeded interleaving of <= 12 observation events over all live "
            "handles: the list, its iterators, its deep copies and theirs, and lazy lists derived from it (open-stop "
            "slices, reversed views, concatenations) with iterators and copies of their own. distinct = distinct (source, "
            "representation, event list) triples; non-trivial = at least one observation judged against the list model. "
            "Every list handle is listified and compared at the end of each history.")

    def setup(self):
        m = repo.load()
        self.LazyList = m["LazyList"].LazyList
        self.deep_copy = m["helpers"].deep_copy
        self.helpers = m["helpers"]

    # ---------------------------------------------------------------- generation
    def gen(self, seed, run, tier):
        rw = sub_rng(seed, self.id, run, "workload")
        rs = sub_rng(seed, self.id, run, "schedule")
        small = rw.random() < 0.45
        if small:
            n = rw.randint(0, 3)
            src = [rw.randint(0, 2) for _ in range(n)]
            nev = rw.randint(1, 4)
        else:
            n = rw.choice([0, 1, 2, 3, 3, 4, 5, 6, 7, 8])
            hi = rw.choice([2, 3, 9])
            src = [rw.randint(0, hi) for _ in range(n)]
            nev = rw.randint(1, 12)
        rep = rw.choice(REPRS)
        pool = None
        if not small and rw.random() < 0.35 and rep != "range":
            pool = ITEM_POOLS[rw.choice(sorted(ITEM_POOLS))]
            src = [rw.choice(pool) for _ in range(n)]
        if rep == "range":
            a = rw.randint(0, 2)
            src = list(range(a, a + n))
        kinds = sorted(set(LIST_OBS))
        if rw.random() < 0.6:
            k = rw.randint(2, len(kinds))
            kinds = rw.sample(kinds, k)
        weights = [LIST_OBS.count(k) for k in kinds]
        events, lists, iters, nxt = [], [0], [], 1
        pre = rw.choice([0, 0, 0, 1, 2, n, n + 1]) if not small else rw.choice([0, 0, 1])

        def needle():
            return rs.choice(pool) if pool else rs.randint(0, 3)

        for _ in range(nev):
            if iters and rs.random() < 0.3:
                events.append(["next_it", rs.choice(iters)])
                continue
            h = rs.choice(lists)
            k = rs.choices(kinds, weights)[0]
            if k == "getitem":
                events.append([k, h, rs.randint(-n - 1, 2 * n + 2)])
            elif k == "slice":
                def pick(allow_none=True):
                    if allow_none and rs.random() < 0.3:
                        return None
                    return rs.randint(-n - 1, n + 2)
                c = rs.choice([None, None, 1, 1, 2, 3, -1, -1, -2])
                events.append([k, h, pick(), pick(), c])
            elif k in ("contains", "count"):
                events.append([k, h, needle()])
            elif k == "h_has_ind":
                events.append([k, h, rs.randint(-2, n + 2)])
            elif k == "h_concat":
                events.append([k, h, [rs.randint(0, 3) for _ in range(rs.randint(0, 2))]])
            elif k == "eq_list":
                other = list(src)
                r = rs.random()
                if r < 0.3 and other:
                    j = rs.randrange(len(other))
                    if pool and rs.random() < 0.7:
                        other[j] = rs.choice(pool)   # possibly a near twin of the item
                    else:
                        other[j] = other[j] + 1 if isinstance(other[j], int) else 7
                elif r < 0.45:
                    other = other[:-1] if other else [0]
                elif r < 0.55:
                    other = other + [0]
                events.append([k, h, other])
            elif k == "eq_lazy":
                if rs.random() < 0.5 and len(lists) > 1:
                    events.append([k, h, "h", rs.choice(lists)])
                else:
                    other = list(src)
                    r = rs.random()
                    if r < 0.3:
                        other = other + [1] if rs.random() < 0.5 else other[:-1]
                    elif r < 0.5 and other and pool:
                        other[rs.randrange(len(other))] = rs.choice(pool)
                    events.append([k, h, "new", other])
            elif k == "order":
                # ordering against a lazy list over a related integer list (both sides must be non-empty lists of ints)
                other = [x for x in src if isinstance(x, int)] or [0]
                r = rs.random()
                if r < 0.3:
                    other = other[:-1] or [0]
                elif r < 0.5:
                    other = other + [rs.randint(0, 2)]
                elif r < 0.7:
                    j = rs.randrange(len(other))
                    other[j] += rs.choice([-1, 1])
                events.append([k, h, rs.choice(["lt", "le", "gt", "ge"]), other, rs.random() < 0.4])
            elif k == "copy":
                events.append([k, h, nxt])
                lists.append(nxt)
                nxt += 1
            elif k == "iter":
                events.append([k, h, nxt])
                iters.append(nxt)
                nxt += 1
            elif k == "mkslice":
                # a lazy list derived from h: h[a::c] (open stop), observed later while h is observed too
                events.append([k, h, rs.choice([None, 0, 1, 1, 2, 3]), rs.choice([None, None, 1, 2, 3]), nxt])
                lists.append(nxt)
                nxt += 1
            elif k == "mkrev":
                events.append([k, h, nxt])
                lists.append(nxt)
                nxt += 1
            elif k == "mkadd":
                events.append([k, h, [rs.randint(0, 3) for _ in range(rs.randint(0, 2))], nxt])
                lists.append(nxt)
                nxt += 1
            elif k == "mkwrap":
                # a lazy list built OVER h (directly, through a generator, through map): it enumerates what h enumerates,
                # however much of h was forced before or is forced in between
                events.append([k, h, rs.choice(["direct", "direct", "gen", "map"]), nxt])
                lists.append(nxt)
                nxt += 1
            else:
                events.append([k, h])
        return dict(src=src, repr=rep, pre=pre, events=events, small=small)

    # ---------------------------------------------------------------- execution
    def real(self, x):
        """the Python object a source yields for an item spec"""
        import sympy

        if isinstance(x, list):
            if x and x[0] == "f" and len(x) == 2 and isinstance(x[1], str):
                return float(x[1])
            if x and x[0] == "b" and len(x) == 2 and isinstance(x[1], bool):
                return x[1]
            if x and x[0] == "t" and len(x) == 2 and isinstance(x[1], list):
                return tuple(self.real(y) for y in x[1])
            if x and x[0] == "g" and len(x) == 2 and isinstance(x[1], list):
                return (self.real(y) for y in list(x[1]))
            if x and x[0] == "q" and len(x) == 3:
                return sympy.Rational(x[1], x[2])
            return [self.real(y) for y in x]
        return x

    def vy(self, m):
        """the Vyxal value (what a program would hold) of a model value: used for needles and comparison lists"""
        import sympy

        if isinstance(m, list):
            if len(m) == 3 and m[0] == "q":
                return sympy.Rational(m[1], m[2])
            return [self.vy(y) for y in m]
        return m

    def build(self, src, rep):
        LL = self.LazyList

        def items():
            return [self.real(x) for x in src]

        if rep == "list":
            return LL(items())
        if rep == "gen":
            return LL(x for x in items())
        if rep == "iter":
            return LL(iter(items()))
        if rep == "range":
            return LL(range(src[0], src[0] + len(src)) if src else range(0))
        if rep == "map":
            return LL(map(lambda x: x, items()))
        if rep == "filter":
            return LL(filter(lambda x: True, items()))
        if rep == "zip":
            return LL(x for (x,) in zip(items()))
        if rep == "tuple":
            return LL(tuple(items()))
        if rep == "lazy":
            return LL(LL(items()))                       # a lazy list over another lazy list
        if rep == "lazycopy":
            return self.deep_copy(LL(iter(items())))     # what `:` leaves on the stack
        if rep == "flagged":
            return LL(iter(items()), isinf=True)          # several elements flag a list infinite although its source ends
        raise ValueError(rep)

    def tm(self, v):
        return world.to_model(v, self.LazyList, 500)

    def state_of(self, h, n):
        g = getattr(h, "generated", None)
        if not isinstance(g, list):
            return "?"
        return "fresh" if not g else ("full" if len(g) >= n else "part")

    def run(self, case):
        LazyList = self.LazyList
        spec = list(case["src"])
        src = [mval(x) for x in spec]
        root = self.build(spec, case["repr"])
        for _ in range(case.get("pre", 0)):
            try:
                next(root)
            except StopIteration:
                break
        handles = {0: ("list", root, src)}
        pos = {}
        log, cov, traj = [], set(), []
        judged = 0
        culprit = None
        tm = self.tm

        def cache_ok():
            # white-box hint only (never a verdict): is every cache still a prefix of what its list denotes?
            for hid, (kind, obj, model) in handles.items():
                if kind == "list":
                    g = getattr(obj, "generated", None)
                    if isinstance(g, list) and not any(isinstance(x, LazyList) for x in g):
                        try:
                            if [world.eager_snapshot(x, LazyList) for x in g] != model[: len(g)]:
                                return False
                        except Exception:
                            return True
            return True

        def fail(clause, ev, st, got, want, n):
            kind = ev[0]
            sig = f"{clause}:{kind}:{arg_class(ev, n)}:st={st}|culprit={culprit or '-'}"
            detail = f"src={spec} repr={case['repr']} event={ev} got={got!r} want={want!r}"
            log.append(dict(violation=sig, got=repr(got), want=repr(want)))
            return dict(verdict=VIOLATION, sig=sig, detail=detail, log=log, steps=len(log), cov=sorted(cov),
                        hist=self.hist(case))

        events = list(case["events"])
        final = "final"
        idx = 0
        while True:
            if idx < len(events):
                ev = events[idx]
            elif final == "final":
                events = events + [["listify", hid] for hid, (k, _, _) in sorted(handles.items()) if k == "list"]
                final = "done"
                if idx >= len(events):
                    break
                ev = events[idx]
            else:
                break
            idx += 1
            kind = ev[0]
            ent = handles.get(ev[1])
            if ent is None:
                continue  # handle removed by shrinking: skip
            hk, h, msrc = ent
            n = len(msrc)
            if (kind == "next_it") != (hk == "iter"):
                continue
            st = self.state_of(h, n) if hk == "list" else "it"
            cov.add(f"{kind}:{arg_class(ev, n)}:{st}")
            want = got = None
            judge = True
            try:
                if kind == "next_it":
                    p = pos[ev[1]]
                    want = msrc[p] if p < n else "StopIteration"
                    try:
                        got = tm(next(h))
                        pos[ev[1]] = p + 1
                    except StopIteration:
                        got = "StopIteration"
                elif kind == "force":
                    judge = False
                    try:
                        got = tm(next(h))
                    except StopIteration:
                        got = "StopIteration"
                elif kind == "getitem":
                    i = ev[2]
                    if n == 0 or i < -n:
                        judge = False
                    else:
                        want = msrc[i] if i < n else msrc[i % n]
                    got = tm(h[i])
                elif kind == "slice":
                    a, b, c = ev[2], ev[3], ev[4]
                    want = msrc[slice(a, b, c)]
                    got = tm(h[slice(a, b, c)])
                elif kind == "len":
                    want, got = n, len(h)
                elif kind == "bool":
                    want, got = int(bool(msrc)), int(bool(h))
                elif kind == "contains":
                    x = mval(ev[2])
                    if getattr(h, "infinite", False):
                        judge = False  # on a list flagged infinite, membership is a monotone search by design
                    want, got = int(x in msrc), int(bool(self.vy(x) in h))
                elif kind == "order":
                    op, other, flagged = ev[2], [mval(o) for o in ev[3]], ev[4]
                    if not msrc or not other or not all(isinstance(x, int) for x in msrc + other):
                        continue
                    o = LazyList(iter(list(other)), isinf=True) if flagged else LazyList(list(other))
                    want = int({"lt": msrc < other, "le": msrc <= other, "gt": msrc > other, "ge": msrc >= other}[op])
                    got = int(bool({"lt": lambda: h < o, "le": lambda: h <= o, "gt": lambda: h > o, "ge": lambda: h >= o}[op]()))
                elif kind == "eq_list":
                    other = [mval(o) for o in ev[2]]
                    want, got = int(msrc == other), int(bool(h == self.vy(other)))
                elif kind == "eq_lazy":
                    if ev[2] == "h":
                        o = handles.get(ev[3])
                        if o is None or o[0] != "list":
                            continue
                        want, got = int(msrc == o[2]), int(bool(h == o[1]))
                    else:
                        other = [mval(o) for o in ev[3]]
                        want, got = int(msrc == other), int(bool(h == LazyList(self.vy(other))))
                elif kind == "count":
                    x = mval(ev[2])
                    want, got = msrc.count(x), h.count(self.vy(x))
                elif kind == "reversed":
                    want, got = msrc[::-1], tm(h.reversed())
                elif kind == "iterate":
                    want, got = list(msrc), tm(list(h))
                elif kind == "listify":
                    want, got = list(msrc), tm(h.listify())
                elif kind == "h_has_ind":
                    want, got = int(0 <= ev[2] < n), int(bool(self.helpers.has_ind(h, ev[2])))
                elif kind == "h_concat":
                    want, got = list(msrc) + list(ev[2]), tm(self.helpers.concat(h, list(ev[2])))
                elif kind == "h_scalarify":
                    want = msrc[0] if n == 1 else list(msrc)
                    got = tm(self.helpers.scalarify(h))
                elif kind == "h_iterable":
                    want, got = list(msrc), tm(self.helpers.iterable(h))
                elif kind == "copy":
                    judge = False
                    if ev[2] in handles:
                        continue
                    handles[ev[2]] = ("list", self.deep_copy(h), msrc)
                    got = "handle"
                elif kind == "iter":
                    judge = False
                    if ev[2] in handles:
                        continue
                    handles[ev[2]] = ("iter", iter(h), msrc)
                    pos[ev[2]] = 0
                    got = "handle"
                elif kind == "mkslice":
                    judge = False
                    if ev[4] in handles:
                        continue
                    d = h[slice(ev[2], None, ev[3])]
                    if not isinstance(d, LazyList):
                        d = LazyList(d)
                    handles[ev[4]] = ("list", d, msrc[slice(ev[2], None, ev[3])])
                    got = "handle"
                elif kind == "mkrev":
                    judge = False
                    if ev[2] in handles:
                        continue
                    handles[ev[2]] = ("list", h.reversed(), msrc[::-1])
                    got = "handle"
                elif kind == "mkadd":
                    judge = False
                    if ev[3] in handles:
                        continue
                    handles[ev[3]] = ("list", h + list(ev[2]), list(msrc) + list(ev[2]))
                    got = "handle"
                elif kind == "mkwrap":
                    judge = False
                    if ev[3] in handles:
                        continue
                    if ev[2] == "direct":
                        d = LazyList(h)
                    elif ev[2] == "gen":
                        d = LazyList(x for x in h)
                    else:
                        d = LazyList(map(lambda x: x, h))
                    handles[ev[3]] = ("list", d, list(msrc))
                    got = "handle"
                else:
                    continue
            except Exception as e:  # the list model never raises on a judged observation
                log.append(dict(ev=ev, st=st, raised=repr(e)))
                if not judge:
                    continue  # an observation the statement does not define may raise
                if culprit is None and not cache_ok():
                    culprit = f"{kind}:{arg_class(ev, n)}"
                return fail("raises", ev, st, repr(e), want, n)
            log.append(dict(ev=ev, st=st, got=got if not isinstance(got, list) or len(got) < 20 else got[:20]))
            g = getattr(root, "generated", None)
            traj.append(len(g) if isinstance(g, list) else -1)
            if culprit is None and not cache_ok():
                culprit = f"{kind}:{arg_class(ev, n)}"
            if judge:
                judged += 1
                if got != want:
                    return fail("value", ev, st, got, want, n)
        cov.add("traj:" + ",".join(map(str, traj[:12])))
        return dict(verdict=OK if judged else DISCARD, sig="" if judged else "nothing-judged", log=log,
                    steps=len(log), cov=sorted(cov), hist=self.hist(case),
                    probes={"small_scope": int(bool(case.get("small"))),
                            "copies": sum(1 for e in case["events"] if e[0] == "copy"),
                            "derived": sum(1 for e in case["events"] if e[0] in ("mkslice", "mkrev", "mkadd", "mkwrap"))})

    def hist(self, case):
        return core.digest([case["src"], case["repr"], case.get("pre", 0), case["events"]])

    # ---------------------------------------------------------------- shrinking
    def shrink(self, case):
        yield from core.shrink_events(case)
        if case.get("pre"):
            yield dict(case, pre=0)
            yield dict(case, pre=case["pre"] - 1)
        if case["repr"] != "list":
            yield dict(case, repr="list")
        src = case["src"]
        if case["repr"] != "range":
            for i in range(len(src)):
                yield dict(case, src=src[:i] + src[i + 1:])
            for i, x in enumerate(src):
                if not isinstance(x, int) or x > 0:
                    yield dict(case, src=src[:i] + [0] + src[i + 1:])
        for j, ev in enumerate(case["events"]):
            for k in range(2, len(ev)):
                v = ev[k]
                if isinstance(v, int) and not isinstance(v, bool) and ev[0] in ("getitem", "slice", "contains", "count", "h_has_ind"):
                    for nv in sorted({0, v // 2, v - 1 if v > 0 else v + 1} - {v}, key=abs):
                        if ev[0] == "slice" and k == 4 and nv == 0:
                            continue  # a slice step of 0 is never generated
                        ne = list(ev)
                        ne[k] = nv
                        yield dict(case, events=case["events"][:j] + [ne] + case["events"][j + 1:])
                    if ev[0] == "slice" and v is not None:
                        ne = list(ev)
                        ne[k] = None
                        yield dict(case, events=case["events"][:j] + [ne] + case["events"][j + 1:])


CHECK = C13()
