"""C11 — input is a cyclic stream shared by explicit and implicit reads.

ctx.inputs is a stack of [values, cursor] scopes.  The cursor of scope 0 is shared by `?`, by every
pop on an empty main stack, by argument collection of lambdas/functions called on a short stack and
by explicit reads inside any lambda -- including lambdas that run *later*, inside a lazy map forced
by the scheduler between later reads or from inside another scope.  With no inputs the read goes to
the stdin seam, which the simulator faults (EOF, OSError, EINTR).

A history is a list of read events, rendered as real program text.  Every read is made observable
by routing the value(s) read into the global array (`⅛`).  The oracle is a monitor: it walks the
events, consumes the observed global array, assigns each observed read group to the scope it must
have come from, and then checks per scope: top level = exactly inputs[k mod n] in order (0 with no
inputs); call scope = cyclic over that call's arguments (direction-agnostic); explicit reads
anywhere = top level.  A wrapper at the helpers.get_input seam cross-checks the exact order.
"""

from __future__ import annotations

import itertools
import sys

from sim import core, repo, world
from sim.core import OK, VIOLATION, DISCARD, sub_rng

STEP_BUDGET = 60_000


ANY = "\x00any"  # a read whose value is not observable (only its place in the stream matters)


class Mismatch(Exception):
    def __init__(self, clause, detail):
        super().__init__(detail)
        self.clause = clause
        self.detail = detail


# ------------------------------------------------------------------------------------------------
# rendering a history as program text


def lit(s):
    if s == "":
        return "``"
    if s == []:
        return "⟨⟩"
    if isinstance(s, list):
        return "⟨" + "|".join(lit(x) for x in s) + "⟩"
    return str(s)


def lit_args(sents):
    return " ".join(lit(s) for s in sents)


def render_events(events, in_body):
    out = []
    for ev in events:
        k = ev[0]
        if k == "exp":
            # optionally through Ė: the same read performed by code that is executed from a string
            out.append("`? ⅛` Ė" if len(ev) > 1 and ev[1] == "Ė" else "? ⅛")
        elif k == "imp":
            a, sents = ev[1], ev[2]
            pre = lit_args(sents)
            op = {1: "⅛", 2: "\" ⅛", 3: "∇ W ⅛"}[a]
            if a == 1 and not sents and len(ev) > 3 and ev[3] == "Ė":
                op = "`⅛` Ė"
            out.append((pre + " " if pre else "") + op)
        elif k == "zcall":
            # the runtime calls a lambda with ZERO arguments: `S` on a function value applies it to the (empty) current
            # stack; `Ḟ` with an empty seed calls its generator function with nothing
            how, body = ev[1], ev[2]
            lam = "λ W ⅛ " + render_events(body, True) + " 0 ;"
            out.append(lam + " S _" if how == "S" else "⟨⟩ " + lam + " Ḟ 1 Ẏ _")
        elif k == "reuse":
            # one lambda object used by a reduction (called with two arguments) and later called directly with †
            pair, call_sents, body, name = ev[1], ev[2], ev[3], ev[4]
            lam = "λ W ⅛ " + render_events(body, True) + " 0 ;"
            pre = lit_args(call_sents)
            out.append(f"{lam} →{name} ⟨{lit(pair[0])}|{lit(pair[1])}⟩ ←{name} R _ " + (pre + " " if pre else "") + f"←{name} † _")
        elif k == "rec":
            # a lambda that calls itself (x) with its argument minus one down to 0; AFTER the inner call has returned,
            # every level does one implicit read in its OWN scope
            out.append(f"{ev[1]} λ W ⅛ n [ n ‹ x _ ] ⅛ 0 ; † _")
        elif k == "amp":
            # `&` with a dyad: pushes the register, then pops TWO values for its function -- on an empty stack the second is
            # an implicit read.  Its value ends up inside the register in a quirky shape; what is judged is that exactly one
            # read happened here (every later read is in its place in the stream).
            out.append("9 £ &\" ¥ _")
        elif k == "par":
            # `₌` / `₍`: both functions take their arguments "from the same stack": on an empty stack the first reads its
            # arguments, then the second reads its own.  `:` and `"` hand their arguments back unchanged.
            mod, fa, fb = ev[1], ev[2], ev[3]
            out.append(mod + fa + fb + " W ⅛")
        elif k == "tilde":
            # `~"`: the modifier pops its element's two arguments WITHOUT removing them (retain_popped): on an empty stack
            # that is two implicit reads whose values stay on the stack, followed by the pair built from them
            out.append("~\" W ⅛")
        elif k == "over":
            sents = ev[1]
            out.append((lit_args(sents) + " " if sents else "") + "Ȯ ⅛" + (" _" if sents else ""))
        elif k == "lam":
            arity, sents, body = ev[1], ev[2], ev[3]
            head = "λ" if arity is None else f"λ{arity}|"
            pre = lit_args(sents)
            if len(ev) > 4 and ev[4] == "X":
                # the lambda is left through X with an empty stack: the value it returns is one more implicit read in its
                # own scope; the caller goes on reading afterwards
                out.append((pre + " " if pre else "") + head + " W ⅛ " + render_events(body, True) + " 1 [ X ] 0 ; † ⅛")
            elif len(ev) > 4 and ev[4]:
                # the body ends with an EMPTY stack: the lambda's result is one more implicit read in its own scope,
                # made observable by sending the returned value to the global array
                out.append((pre + " " if pre else "") + head + " W ⅛ " + render_events(body, True) + " ; † ⅛")
            else:
                out.append((pre + " " if pre else "") + head + " W ⅛ " + render_events(body, True) + " 0 ; † _")
        elif k == "fn":
            name, params, sents, body = ev[1], ev[2], ev[3], ev[4]
            named = [p for p in params if not p.isdigit()]
            obs_named = " ".join(f"←{p} ⅛" for p in named)
            pre = lit_args(sents)
            out.append("@" + name + "".join(":" + p for p in params) + "| W ⅛ " + obs_named + " "
                       + render_events(body, True) + " ; " + (pre + " " if pre else "") + "@" + name + "; W _")
        elif k == "map":
            kind, items, body, h = ev[1], ev[2], ev[3], ev[4]
            opener = {"map": "ƛ", "filter": "'", "vec": "λ"}[kind]
            lst = "⟨" + "|".join(lit(s) for s in items) + "⟩"
            if kind == "vec":
                out.append(lst + " λ W ⅛ " + render_events(body, True) + " 0 ; M →m" + h)
            else:
                # a filter body ends truthy so that every item passes and the body runs once per forced item
                out.append(lst + " " + opener + " W ⅛ " + render_events(body, True)
                           + (" 1 ; →m" if kind == "filter" else " 0 ; →m") + h)
        elif k == "force":
            h, n = ev[1], ev[2]
            # n > 50 means "force everything, past the end" (length); otherwise the first n items
            out.append(f"←m{h} L _" if n > 50 else f"←m{h} {n} Ẏ _")
        else:
            raise ValueError(ev)
    return " ".join(out)


# ------------------------------------------------------------------------------------------------
# the monitor


class Scope:
    def __init__(self, kind, args):
        self.kind = kind  # "top" / "call"
        self.args = list(args)
        self.groups = []  # each: list of observed values (a multiset)


def flat1(v):
    return list(v) if isinstance(v, list) else [v]


def key(v):
    return core.jdump(v)


def minus(values, sents, what):
    """values minus the sentinels (as multisets); every sentinel must be present."""
    vals = list(values)
    for s in sents:
        for i, v in enumerate(vals):
            if v == s and (not isinstance(v, list) or v == []):
                del vals[i]
                break
        else:
            raise Mismatch("lost-argument", f"{what}: literal {s} pushed before the read is missing from {values}")
    return vals


class Monitor:
    def __init__(self, inputs, observed):
        self.inputs = inputs
        self.obs = list(observed)
        self.i = 0
        self.top = Scope("top", inputs)
        self.calls = []
        self.maps = {}

    def take(self, what):
        if self.i >= len(self.obs):
            raise Mismatch("missing-read", f"{what}: the global array has only {len(self.obs)} entries")
        v = self.obs[self.i]
        self.i += 1
        return v

    def walk(self, events, scope):
        for ev in events:
            k = ev[0]
            if k == "exp":
                self.top.groups.append([self.take("explicit read")])
            elif k == "imp":
                a, sents = ev[1], ev[2]
                v = self.take(f"implicit read arity {a}")
                vals = flat1(v) if a > 1 else [v]
                if len(vals) != a:
                    raise Mismatch("shape", f"implicit pop of arity {a} produced {v}")
                g = minus(vals, sents, f"implicit pop of arity {a}")
                if g:
                    scope.groups.append(g)
            elif k == "zcall":
                args = self.take("arguments of a lambda called with nothing")
                if args != []:
                    raise Mismatch("shape", f"a lambda called with zero arguments received {args}")
                child = Scope("call", [])
                self.calls.append(child)
                self.walk(ev[2], child)
            elif k == "reuse":
                pair, call_sents, body = ev[1], ev[2], ev[3]
                args = self.take("arguments of the reducing call")
                if not isinstance(args, list) or sorted(map(key, args)) != sorted(map(key, pair)):
                    raise Mismatch("shape", f"the reduction called its function with {args}, expected the pair {pair}")
                child = Scope("call", args)
                self.calls.append(child)
                self.walk(body, child)
                args2 = self.take("arguments of the later direct call")
                if not isinstance(args2, list) or len(args2) != 1:
                    raise Mismatch("shape", f"a lambda of declared arity 1, called with † after a reduction used it, received {args2}")
                g = minus(args2, call_sents, "lambda arguments")
                if g:
                    scope.groups.append(g)
                child2 = Scope("call", args2)
                self.calls.append(child2)
                self.walk(body, child2)
            elif k == "rec":
                d = ev[1]
                got = [self.take("recursion") for _ in range(2 * (d + 1))]
                want = [[j] for j in range(d, -1, -1)] + list(range(0, d + 1))
                if got != want:
                    raise Mismatch("call-cycle", f"a lambda recursing from {d} down to 0 saw arguments / own-scope reads {got}, "
                                                 f"expected {want}")
            elif k == "amp":
                scope.groups.append([ANY])
            elif k == "par":
                mod, fa, fb = ev[1], ev[2], ev[3]
                v = self.take("parallel apply")
                if mod == "₍":
                    if not (isinstance(v, list) and len(v) == 1 and isinstance(v[0], list) and len(v[0]) == 2):
                        raise Mismatch("shape", f"₍ on an empty stack left {v}")
                    v = v[0]
                if not (isinstance(v, list) and len(v) == 2):
                    raise Mismatch("shape", f"{mod} on an empty stack left {v}")
                for res, f_ in zip(v, (fa, fb)):
                    g = [res] if f_ == ":" else (list(res) if isinstance(res, list) else None)
                    if g is None or len(g) != (1 if f_ == ":" else 2):
                        raise Mismatch("shape", f"{mod}{fa}{fb}: function {f_} returned {res}")
                    scope.groups.append(g)
            elif k == "tilde":
                v = self.take("retaining pop")
                if not isinstance(v, list) or len(v) != 3 or not isinstance(v[2], list) or len(v[2]) != 2:
                    raise Mismatch("shape", f"~\" on an empty stack left {v}")
                if sorted(map(key, v[:2])) != sorted(map(key, v[2])):
                    raise Mismatch("shape", f"~\" retained {v[:2]} but paired {v[2]}")
                scope.groups.append(list(v[:2]))
            elif k == "over":
                v = self.take("over")
                scope.groups.append([v])
            elif k == "lam":
                arity, sents, body = ev[1], ev[2], ev[3]
                a = 1 if arity is None else arity
                args = self.take("lambda arguments")
                if not isinstance(args, list) or len(args) != a:
                    raise Mismatch("shape", f"lambda of arity {a} received {args}")
                g = minus(args, sents, "lambda arguments")
                if g:
                    scope.groups.append(g)
                child = Scope("call", args)
                self.calls.append(child)
                self.walk(body, child)
                if len(ev) > 4 and ev[4]:
                    child.groups.append([self.take("value returned by a lambda whose stack was empty")])
            elif k == "fn":
                name, params, sents, body = ev[1], ev[2], ev[3], ev[4]
                m = sum(int(p) for p in params if p.isdigit())
                args = self.take("function parameters")
                if not isinstance(args, list) or len(args) != m:
                    raise Mismatch("shape", f"function with {m} stack parameters received {args}")
                named = [self.take("named parameter") for p in params if not p.isdigit()]
                g = minus(list(args) + named, sents, "function arguments")
                if g:
                    scope.groups.append(g)
                child = Scope("call", args)
                self.calls.append(child)
                self.walk(body, child)
            elif k == "map":
                self.maps[ev[4]] = dict(items=list(ev[2]), body=ev[3], done=0)
            elif k == "force":
                mp = self.maps.get(ev[1])
                if mp is None:
                    continue
                upto = min(ev[2], len(mp["items"]))
                while mp["done"] < upto:
                    item = mp["items"][mp["done"]]
                    mp["done"] += 1
                    args = self.take("deferred lambda argument")
                    if args != [item]:
                        raise Mismatch("shape", f"deferred body for item {item} received {args}")
                    child = Scope("call", [item])
                    self.calls.append(child)
                    self.walk(mp["body"], child)

    def check(self):
        if self.i != len(self.obs):
            raise Mismatch("extra-read", f"{len(self.obs) - self.i} unexpected entries in the global array: "
                                         f"{self.obs[self.i:self.i + 4]}")
        # top level: exact cyclic order
        n = len(self.inputs)
        p = 0
        for g in self.top.groups:
            want = [self.inputs[(p + j) % n] if n else 0 for j in range(len(g))]
            if ANY in g:
                p += len(g)
                continue
            if sorted(map(key, g)) != sorted(map(key, want)):
                raise Mismatch("top-order" if n else "no-input-zero",
                               f"top-level reads {p}..{p + len(g) - 1} delivered {g}, expected {want} "
                               f"(inputs {self.inputs})")
            p += len(g)
        # call scopes: cyclic over the call's arguments, direction-agnostic
        for sc in self.calls:
            m = len(sc.args)
            if not sc.groups:
                continue
            if m == 0:
                for g in sc.groups:
                    if any(v != 0 and v != ANY for v in g):
                        raise Mismatch("call-zero", f"implicit read in a call without arguments delivered {g}")
                continue
            ok = False
            for perm in set(itertools.permutations(range(m))):
                pos, good = 0, True
                for g in sc.groups:
                    want = [sc.args[perm[(pos + j) % m]] for j in range(len(g))]
                    if ANY not in g and sorted(map(key, g)) != sorted(map(key, want)):
                        good = False
                        break
                    pos += len(g)
                if good:
                    ok = True
                    break
            if not ok:
                raise Mismatch("call-cycle", f"implicit reads {sc.groups} inside a call do not cycle over its arguments "
                                             f"{sc.args}")
        return p


# ------------------------------------------------------------------------------------------------


class C11(core.Check):
    id = "C11"
    title = "Input is a cyclic stream shared by explicit and implicit reads"
    tiers = {
        "quick": dict(runs=30_000, batch=200, wall=80),
        "thorough": dict(runs=600_000, batch=800, wall=840),
    }
    per_run_timeout = 60
    components_real = ["vyxal/helpers.py get_input, pop, wrapify, vy_eval", "vyxal/context.py", "vyxal/transpile.py lambda / "
                       "function templates", "vyxal/elements.py (? ⅛ \" ∇ W Ȯ † M Ẏ templates, vy_map, vy_filter, index)",
                       "vyxal/main.py execute_vyxal (driver B, inputs parsed from strings)", "lexer, parser"]
    components_stub = ["stdin: StdinSeam (script of lines / EOF / OSError / EINTR)"]
    fault_kinds = ["stdin EOF", "stdin OSError", "stdin EINTR", "stdin blank line (recorded, not judged)",
                   "deferred lambda forced inside another scope"]
    assumptions = [
        "the order of values inside one multi-value pop is not part of the statement: a pop of arity k is judged as the "
        "multiset of the next k inputs; exact delivery order is cross-checked at the helpers.get_input seam",
        "a call's arguments are the values placed on the callee's stack (numeric parameters of a named function); "
        "named parameters are bound to variables and are not part of its implicit-input cycle",
        "inside a call the direction of the cycle is not stated: any fixed permutation of the arguments is accepted",
        "runs in which the program raises or exceeds the step budget are discarded",
        "stdin that delivers lines (even blank ones) is outside the statement: recorded, not judged",
    ]
    rule = ("one run = 0..4 unique inputs (ints / int lists) and a history of <= 12 read events (explicit ?, implicit pops "
            "of arity 1-3 on an empty or too-short stack, Ȯ, lambdas of arity 0-3 and named functions called on a short "
            "stack with nested reads two deep, lazy map/filter bodies forced by scheduler-placed force events at top level "
            "or inside another scope). distinct = distinct (inputs, event list, stdin script, driver); non-trivial = at "
            "least one read was judged.")

    def setup(self):
        self.m = world.install_seams()
        world.CLOCK.install()
        self.LazyList = self.m["LazyList"].LazyList
        # recording wrapper at the get_input seam (same signature; the original does the work)
        self.seam_log = []
        orig = self.m["helpers"].get_input
        if not getattr(orig, "__verif_wrapped__", False):
            log = self.seam_log

            def get_input(ctx):
                top = ctx.use_top_input or len(ctx.inputs) == 1
                depth = len(ctx.inputs)
                v = orig(ctx)
                # the fallback inside get_input calls itself with use_top_input set: log only the outermost call
                log.append((top, v))
                return v

            get_input.__verif_wrapped__ = True
            get_input.__orig__ = orig
            for name in ("helpers", "elements", "main", "transpile"):
                if hasattr(self.m[name], "get_input"):
                    setattr(self.m[name], "get_input", get_input)

    # ---------------------------------------------------------------------------- generation
    def gen_events(self, r, depth, budget, maps, in_body, sent):
        evs = []
        n = r.randint(1, 4) if in_body else budget
        for _ in range(n):
            x = r.random()
            if x < 0.22:
                evs.append(["exp", "Ė"] if r.random() < 0.15 else ["exp"])
            elif x < 0.50:
                a = r.choice([1, 1, 2, 2, 3])
                p = r.randint(0, a - 1) if r.random() < 0.4 else 0
                evs.append(["imp", a, [sent() for _ in range(p)]] + (["Ė"] if a == 1 and p == 0 and r.random() < 0.2 else []))
            elif x < 0.53:
                evs.append(["over", [sent()] if r.random() < 0.4 else []])
            elif x < 0.57:
                evs.append(["tilde"])
            elif x < 0.58:
                evs.append(["amp"])
            elif x < 0.59:
                evs.append(["rec", r.randint(1, 4)])
            elif x < 0.605:
                evs.append(["par", r.choice(["₌", "₍"]), r.choice([":", "\""]), r.choice([":", "\""])])
            elif x < 0.625 and depth < 2:
                evs.append(["zcall", r.choice(["S", "Ḟ"]), self.gen_events(r, depth + 1, 0, maps, True, sent)[:2]])
            elif x < 0.65 and depth < 1 and not in_body:
                a_, b_ = sent(), sent()
                while not (isinstance(a_, int) and isinstance(b_, int)):
                    a_, b_ = sent(), sent()
                cs = [sent()] if r.random() < 0.5 else []
                evs.append(["reuse", [a_, b_], cs, self.gen_events(r, 2, 0, [], True, sent)[:2], "f" + "uvwxyz"[len(evs) % 6]])
            elif x < 0.72 and depth < 2:
                arity = r.choice([None, 0, 1, 2, 3, 1, 2])
                a = 1 if arity is None else arity
                p = r.randint(0, a)
                body_ = self.gen_events(r, depth + 1, 0, maps, True, sent)
                how_ = r.choice([False, False, False, True, True, "X"])
                if how_ == "X":
                    # an X that FOLLOWS a modifier in the same body is parsed under the modifier and lowered to `pass`
                    # (a quirk of the given parser): keep modifiers out of bodies that end with an early exit
                    body_ = [e for e in body_ if e[0] not in ("tilde", "amp", "par")]
                evs.append(["lam", arity, [sent() for _ in range(p)], body_, how_])
            elif x < 0.80 and depth < 2 and not in_body:
                params = r.choice([["1"], ["2"], ["3"], ["a"], ["1", "a"], ["a", "2"], []])
                total = sum(int(q) if q.isdigit() else 1 for q in params)
                p = r.randint(0, total)
                name = "f" + "abcdefghijklmnop"[len(maps) + len(evs) % 10]
                evs.append(["fn", name, params, [sent() for _ in range(p)],
                            self.gen_events(r, depth + 1, 0, maps, True, sent)])
            elif x < 0.90 and not in_body and len(maps) < 3:
                h = "abc"[len(maps)]
                items = [sent() for _ in range(r.randint(1, 3))]
                kind = r.choice(["map", "map", "filter", "vec"])
                maps.append([h, len(items)])
                # no force events inside a deferred body (forcing a list from inside its own body is re-entrancy, not input)
                evs.append(["map", kind, items, self.gen_events(r, 2, 0, [], True, sent)[:2], h])
            elif maps:
                h, ln = r.choice(maps)
                evs.append(["force", h, r.choice([r.randint(1, ln), ln + 1, 99])])
            else:
                evs.append(["exp"])
        return evs

    def gen(self, seed, run, tier):
        rw = sub_rng(seed, self.id, run, "workload")
        rf = sub_rng(seed, self.id, run, "faults")
        n = rw.choice([0, 0, 1, 2, 2, 3, 3, 4])
        pool = list(range(1, 60))
        rw.shuffle(pool)
        inputs = []
        for i in range(n):
            y = rw.random()
            if y < 0.25:
                inputs.append([pool.pop(), pool.pop()])
            elif y < 0.35:
                inputs.append("s%d" % pool.pop())
            elif y < 0.40:
                inputs.append([[pool.pop()], pool.pop()])
            else:
                inputs.append(pool.pop())
        counter = [100]

        def sent():
            # pushed literals are unique integers, or now and then a value that is falsy without being 0
            if rw.random() < 0.08:
                return ""  # (`⟨⟩` is not usable: list-literal items see a copy of the enclosing stack)
            counter[0] += 1
            return counter[0]

        maps = []
        events = self.gen_events(rw, 0, rw.randint(1, 8), maps, False, sent)
        # make sure deferred bodies are eventually forced somewhere
        for h, ln in maps:
            if rw.random() < 0.7:
                events.insert(rw.randint(0, len(events)), ["force", h, rw.choice([ln, ln + 1, 99])])
        # a force placed before its map is a no-op in both the program (NameError -> discard) and the model: repair
        seen, fixed = set(), []
        for ev in events:
            if ev[0] == "map":
                seen.add(ev[4])
            if ev[0] == "force" and ev[1] not in seen:
                continue
            fixed.append(ev)
        events = fixed or [["exp"]]
        stdin, after = [], "EOF"
        if n == 0:
            mode = rf.choice(["eof", "eof", "oserr", "intr", "mixed", "blank"])
            if mode == "oserr":
                after = "OSERR"
            elif mode == "intr":
                after = "INTR"
            elif mode == "mixed":
                stdin = [{"fault": rf.choice(["EOF", "OSERR", "INTR"])} for _ in range(rf.randint(1, 4))]
                after = rf.choice(["EOF", "OSERR"])
            elif mode == "blank":
                stdin = ["" for _ in range(rf.randint(1, 3))]
        driver = rw.choice(["world"] * 11 + ["main"] * 5 + ["online"] * 3 + ["repl"])
        if driver == "online":
            # the web interpreter's input text: one literal per line; string inputs may contain characters that some
            # line-splitting functions treat as line ends, and the text may end with an empty last line
            if inputs and rw.random() < 0.5:
                j = rw.randrange(len(inputs))
                inputs[j] = "s" + rw.choice(["\x0c", "\x0b", "\u2028", "\x85", "\x1c", "\x1e", " ", "\t"]) + str(j)
        if driver == "repl" and n != 0:
            driver = "world"
        case = dict(inputs=inputs, events=events, stdin=stdin, stdin_after=after, driver=driver)
        if driver == "online" and inputs and rw.random() < 0.3:
            case["trailing_empty"] = True
        if driver == "repl":
            # a REPL session: an optional earlier line that fails inside a lambda, then one line of top-level reads
            case["events"] = [e for e in events if e[0] in ("exp", "imp", "over", "tilde", "par")][:4] or [["imp", 1, []]]
            case["events"] = [(e[:3] if e[0] == "imp" else e[:1] if e[0] == "exp" else e) for e in case["events"]]
            case["repl_fault"] = rw.choice([None, None, "4 λ1 0%;†", "7 8 λ2|`a`0%;†", "@q:1|1 0%; 5 @q;", "3 ƛ1 0%;"])
            case["stdin"], case["stdin_after"] = [], "EOF"
        if driver == "main" and inputs and rw.random() < 0.3:
            case["flag"] = rw.choice(["a", "Ṡ"])  # all inputs as one list / every input as a string
        if rw.random() < 0.35:
            # an earlier, unrelated execution in the same process (its own Context, its own inputs, r reads)
            case["prelude"] = [[rw.randint(200, 299) for _ in range(rw.randint(1, 3))], rw.randint(1, 5)]
        return case

    # ---------------------------------------------------------------------------- execution
    def run(self, case):
        LL = self.LazyList
        inputs = case["inputs"]
        try:
            text = render_events(case["events"], False)
        except Exception:
            return dict(verdict=DISCARD, sig="render", log=[], steps=0, hist=None)
        log = [dict(program=text, inputs=inputs, stdin=case.get("stdin"), after=case.get("stdin_after"))]
        if case.get("prelude") and case.get("driver") != "repl":
            self.run_prelude(case["prelude"], "main" if case.get("driver") in ("main", "online") else "world")
        del self.seam_log[:]
        outcome, steps = None, 0
        judged_stdin = not any(isinstance(x, str) for x in case.get("stdin") or [])
        if case.get("driver") == "repl":
            return self.run_repl(case, text, log)
        if case.get("driver") in ("main", "online"):
            main = self.m["main"]
            created = []
            Base = self.m["context"].Context

            class Capturing(Base):
                def __init__(self):
                    super().__init__()
                    created.append(self)

            w = world.World(inputs=[], stdin=case.get("stdin"), stdin_after=case.get("stdin_after", "EOF"))
            old_ctx, old_out = main.Context, sys.stdout
            main.Context = Capturing
            sys.stdout = w.out
            world.CLOCK.start(budget=STEP_BUDGET, count_string=True)
            try:
                with world.rec_limit():
                    # D: string literals are raw (the only strings in these programs are code handed to Ė)
                    if case.get("driver") == "online":
                        lines = [core.jdump(x) for x in inputs] + ([""] if case.get("trailing_empty") else [])
                        main.execute_vyxal(text, "eOD", "\n".join(lines), {1: "", 2: ""}, True)
                    else:
                        main.execute_vyxal(text, "eOD" + case.get("flag", ""), [core.jdump(x) for x in inputs])
            except world.StepBudgetExceeded:
                outcome = "budget"
            except world.ValueTooBig:
                outcome = "too-big"
            except SystemExit:
                outcome = "exit"
            except Exception as e:
                outcome = "raised:" + type(e).__name__
            finally:
                steps = world.CLOCK.stop()
                sys.stdout = old_out
                main.Context = old_ctx
            ctx = created[0] if created else None
        else:
            w = world.World(inputs=inputs, stdin=case.get("stdin"), stdin_after=case.get("stdin_after", "EOF"))
            ctx = w.ctx
            world.CLOCK.start(budget=STEP_BUDGET)
            try:
                with world.rec_limit():
                    w.ctx.dictionary_compression = False
                    w.run_code(w.compile_program(text, dict_compress=False))
            except world.StepBudgetExceeded:
                outcome = "budget"
            except world.ValueTooBig:
                outcome = "too-big"
            except SystemExit:
                outcome = "exit"
            except Exception as e:
                outcome = "raised:" + type(e).__name__
            finally:
                steps = world.CLOCK.stop()
        faults = dict(("stdin_" + k, v) for k, v in world.STDIN.faults.items())
        if (outcome in ("raised:OSError", "raised:EOFError", "raised:InterruptedError") and not inputs
                and world.STDIN.faults and not any(isinstance(x, str) for x in case.get("stdin") or [])):
            sig = "no-input-raises:n=0:" + outcome.split(":")[1]
            log.append(dict(violation=sig))
            return dict(verdict=VIOLATION, sig=sig, log=log, steps=steps, faults=faults, hist=core.digest(case),
                        detail=f"program={text!r} with no inputs: the failure of the stdin read ({world.STDIN.log[-1:]}) "
                               f"propagated as {outcome.split(':')[1]} instead of the read yielding 0")
        if outcome is not None or ctx is None:
            log.append(dict(outcome=outcome))
            return dict(verdict=DISCARD, sig=outcome or "no-context", log=log, steps=steps, faults=faults, hist=None)
        observed = [world.to_model(v, LL) for v in ctx.global_array]
        seam = [(t, world.to_model(v, LL)) for t, v in self.seam_log]
        log.append(dict(global_array=observed, stdin_reads=world.STDIN.reads))
        cov = set()
        for ev in case["events"]:
            cov.add(ev[0] + (str(ev[1]) if ev[0] in ("imp", "lam") else ""))
        hist = core.digest(case)

        def fail(clause, detail):
            kinds = sorted({e[0] for e in self.flat_events(case["events"])})
            sig = f"{clause}:n={min(len(inputs), 2)}:{'+'.join(kinds)}"
            log.append(dict(violation=sig, detail=detail))
            return dict(verdict=VIOLATION, sig=sig, detail=f"program={text!r} inputs={inputs}: {detail}", log=log,
                        steps=steps, cov=sorted(cov), faults=faults, hist=hist)

        if not inputs and not judged_stdin:
            return dict(verdict=DISCARD, sig="stdin-has-lines", log=log, steps=steps, faults=faults, hist=None)
        if case.get("driver") == "online" and case.get("trailing_empty"):
            inputs = list(inputs) + [""]     # an empty last line of the input text is one more input: the empty string
        if case.get("driver") == "main" and case.get("flag") == "a":
            inputs = [list(inputs)]          # the a flag: the inputs form ONE input, a list
        elif case.get("driver") == "main" and case.get("flag") == "Ṡ":
            inputs = [core.jdump(x) for x in inputs]  # the Ṡ flag: every input stays the string that was passed
        mon = Monitor(inputs, observed)
        try:
            mon.walk(case["events"], mon.top)
            ntop = mon.check()
        except Mismatch as e:
            return fail(e.clause, e.detail)
        # exact delivery order at the seam (only the reads that were served from scope 0)
        n = len(inputs)
        top_vals = [v for t, v in seam if t]
        if n:
            # the nested self-call of get_input (fallback path) is logged twice with the same value only when n == 0
            for k, v in enumerate(top_vals):
                if v != inputs[k % n]:
                    return fail("seam-order", f"get_input delivered {top_vals} at top level, expected the cycle of {inputs}")
        if world.STDIN.reads and inputs:
            cov.add("stdin-read-with-inputs")
        cov.add(f"n={n}:stdin={case.get('stdin_after')}")
        return dict(verdict=OK, sig="", log=log, steps=steps, cov=sorted(cov), faults=faults, hist=hist,
                    probes={"top_reads": ntop, "call_scopes": len(mon.calls), "deferred": sum(m["done"] for m in mon.maps.values()),
                            "wrapped_around": int(n > 0 and ntop > n), "no_inputs": int(n == 0)})

    def run_repl(self, case, text, log):
        """Driver C: vyxal.main.repl() fed from the stdin seam.  With no inputs every top-level read of the last line
        meets EOF and must yield 0 -- whatever an earlier line of the session did."""
        main = self.m["main"]
        created = []
        Base = self.m["context"].Context

        class Capturing(Base):
            def __init__(self):
                super().__init__()
                created.append(self)

        lines = ([case["repl_fault"]] if case.get("repl_fault") else []) + [text]
        w = world.World(inputs=[], stdin=lines, stdin_after="EOF")
        old_ctx, old_out = main.Context, sys.stdout
        main.Context = Capturing
        sys.stdout = w.out
        outcome = None
        world.CLOCK.start(budget=STEP_BUDGET, count_string=True)
        try:
            with world.rec_limit():
                main.repl()
        except EOFError:
            outcome = None  # the session's input is over: the normal end of a REPL
        except world.StepBudgetExceeded:
            outcome = "budget"
        except SystemExit:
            outcome = "exit"
        except Exception as e:
            outcome = "raised:" + type(e).__name__
        finally:
            steps = world.CLOCK.stop()
            sys.stdout = old_out
            main.Context = old_ctx
        faults = dict(("stdin_" + k, v) for k, v in world.STDIN.faults.items())
        log.append(dict(repl_lines=lines, outcome=outcome))
        if outcome is not None or not created:
            return dict(verdict=DISCARD, sig=outcome or "no-context", log=log, steps=steps, faults=faults, hist=None)
        observed = [world.to_model(v, self.LazyList) for v in created[0].global_array]
        log.append(dict(global_array=observed))
        mon = Monitor([], observed)
        try:
            mon.walk(case["events"], mon.top)
            ntop = mon.check()
        except Mismatch as e:
            sig = f"{e.clause}:repl:{'after-error' if case.get('repl_fault') else 'plain'}"
            log.append(dict(violation=sig, detail=e.detail))
            return dict(verdict=VIOLATION, sig=sig, log=log, steps=steps, faults=faults, hist=core.digest(case),
                        detail=f"REPL session {lines!r}: {e.detail}")
        return dict(verdict=OK, sig="", log=log, steps=steps, cov=["driver:repl", "repl-after-error" if case.get("repl_fault") else "repl-plain"],
                    faults=faults, hist=core.digest(case), probes={"top_reads": ntop, "repl_sessions": 1})

    def run_prelude(self, prelude, driver):
        """A previous execution: fresh Context, its own inputs, r explicit reads.  It must not influence what follows."""
        pin, r = prelude
        text = " ".join(["? _"] * r)
        world.CLOCK.start(budget=STEP_BUDGET, count_string=True)
        old = sys.stdout
        try:
            if driver == "main":
                w = world.World(inputs=[])
                sys.stdout = w.out
                self.m["main"].execute_vyxal(text, "eO", [str(x) for x in pin])
            else:
                w = world.World(inputs=pin)
                w.run_code(w.compile_program(text))
        except BaseException as e:  # the prelude is trivial; anything here is the harness's problem
            if isinstance(e, (KeyboardInterrupt,)):
                raise
        finally:
            sys.stdout = old
            world.CLOCK.stop()

    def flat_events(self, events):
        for ev in events:
            yield ev
            if ev[0] == "lam":
                yield from self.flat_events(ev[3])
            elif ev[0] == "zcall":
                yield from self.flat_events(ev[2])
            elif ev[0] == "reuse":
                yield from self.flat_events(ev[3])
            elif ev[0] == "fn":
                yield from self.flat_events(ev[4])
            elif ev[0] == "map":
                yield from self.flat_events(ev[3])

    # ---------------------------------------------------------------------------- shrinking
    def shrink_events(self, events):
        for i in range(len(events)):
            yield events[:i] + events[i + 1:]
        for i, ev in enumerate(events):
            idx = {"lam": 3, "fn": 4, "map": 3, "zcall": 2, "reuse": 3}.get(ev[0])
            if idx is not None:
                for sub in self.shrink_events(ev[idx]):
                    ne = list(ev)
                    ne[idx] = sub
                    yield events[:i] + [ne] + events[i + 1:]
            if ev[0] == "imp" and ev[2]:
                yield events[:i] + [["imp", ev[1], ev[2][:-1]]] + events[i + 1:]
            if ev[0] == "imp" and ev[1] > 1 and len(ev[2]) < ev[1] - 1:
                yield events[:i] + [["imp", ev[1] - 1, ev[2]]] + events[i + 1:]
            if ev[0] == "lam" and ev[2]:
                yield events[:i] + [["lam", ev[1], ev[2][:-1], ev[3]] + ev[4:]] + events[i + 1:]
            if ev[0] == "lam" and len(ev) > 4 and ev[4]:
                yield events[:i] + [ev[:4] + [False]] + events[i + 1:]

    def shrink(self, case):
        if case.get("driver") == "main":
            yield dict(case, driver="world")
        for evs in self.shrink_events(case["events"]):
            if evs:
                yield dict(case, events=evs)
        inp = case["inputs"]
        for i in range(len(inp)):
            yield dict(case, inputs=inp[:i] + inp[i + 1:])
        for i, v in enumerate(inp):
            if isinstance(v, list):
                yield dict(case, inputs=inp[:i] + [v[0]] + inp[i + 1:])
        if case.get("stdin"):
            yield dict(case, stdin=[])
        if case.get("prelude"):
            c = dict(case)
            del c["prelude"]
            yield c

    def self_contained(self, case):
        return bool(case.get("prelude"))

    def sig_class(self, sig):
        return sig.split(":")[0]

    def same_failure(self, a, b):
        return a["sig"].split(":")[0] == b["sig"].split(":")[0]


CHECK = C11()
