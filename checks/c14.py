"""C14 — finite prefixes of infinite lists are computed lazily and terminate.

Bounded liveness against a stream the simulator owns: an infinite source 1, 2, 3, ... that counts
pulls and raises PullBudgetExceeded (a BaseException) when a pull budget is exhausted; the step
clock catches loops that spin without pulling.  Pull counter and step counter are the only clocks.
A pipeline of 1-3 catalogued transformations is applied by real transpiled program text; the prefix
is then demanded in a seeded pattern (the schedule).  Oracle: the run returns, raw pulls stay under
an affine bound composed from the catalogue, and the first items equal a small Python stream model.
"""

from __future__ import annotations

import itertools
import signal
import time
from fractions import Fraction

from sim import core, repo, world
from sim.core import OK, VIOLATION, DISCARD, sub_rng

STEP_BUDGET = 2_000_000


class PullBudgetExceeded(BaseException):
    pass


class Blocked(BaseException):
    """the run consumes no CPU: it waits for something that never comes (a lock, a read)"""


# ------------------------------------------------------------------------------------------------
# stream models (Python generators over ints / lists / Fractions)


def deep(f):
    def g(x):
        if isinstance(x, list):
            return [g(y) for y in x]
        return f(x)
    return g


def m_map(f):
    return lambda s: (deep(f)(x) for x in s)


def m_filter(p):
    return lambda s: (x for x in s if p(x))


def m_zip_self(s):
    for x in s:
        yield [x, x]


def m_zip_nat(s):
    for i, x in enumerate(s):
        yield [x, i + 1]


def m_il_self(s):
    for x in s:
        yield x
        yield x


def m_il_nat(s):
    for i, x in enumerate(s):
        yield x
        yield i + 1


def m_add_nat(s):
    for i, x in enumerate(s):
        yield deep(lambda v: v + i + 1)(x)


def m_prefixes(s):
    acc = []
    for x in s:
        acc = acc + [x]
        yield list(acc)


def m_cumsum(s):
    t = None
    for x in s:
        t = x if t is None else t + x
        yield t


def m_deltas(s):
    prev = None
    for x in s:
        if prev is not None:
            yield x - prev
        prev = x


def m_windows(k):
    def f(s):
        buf = []
        for x in s:
            buf.append(x)
            if len(buf) == k:
                yield list(buf)
                buf.pop(0)
    return f


def m_chunks(k):
    def f(s):
        buf = []
        for x in s:
            buf.append(x)
            if len(buf) == k:
                yield "".join(buf) if all(isinstance(y, str) for y in buf) else buf
                buf = []
    return f


FIN = [7, 8, 9]


def m_zip_fin(left):
    def f(s):
        for i, x in enumerate(s):
            o = FIN[i] if i < len(FIN) else 0
            yield [o, x] if left else [x, o]
    return f


def m_arith_fin(op):
    def f(s):
        for i, x in enumerate(s):
            yield op(x, FIN[i]) if i < len(FIN) else op(x, None)
    return f


def m_il_fin(first):
    def f(s):
        it = iter(s)
        for v in FIN:
            if first:
                yield v
                yield next(it)
            else:
                yield next(it)
                yield v
        yield from it
    return f


def m_prepend_fin(s):
    yield from FIN
    yield from s


def m_cart_fin(s):
    for x in s:
        yield [x, 7]
        yield [x, 8]


def flat(x):
    if isinstance(x, list):
        for y in x:
            yield from flat(y)
    else:
        yield x


def m_flatten(s):
    for x in s:
        yield from flat(x)


def m_enumerate(s):
    for i, x in enumerate(s):
        yield [i, x]


def m_prepend0(s):
    yield 0
    yield from s


def m_drop(k):
    return lambda s: itertools.islice(s, k, None)


def m_ident(s):
    return s


def m_uniq_mask(s):
    seen = []
    for x in s:
        if x in seen:
            yield 0
        else:
            seen.append(x)
            yield 1


def m_group(s):
    cur = None
    for x in s:
        if cur is not None and cur[0] == x:
            cur.append(x)
        else:
            if cur is not None:
                yield cur
            cur = [x]


def m_every_other(f, first):
    def g(s):
        for i, x in enumerate(s):
            yield deep(f)(x) if (i % 2 == 0) == first else x
    return g


def m_step2(off):
    return lambda s: itertools.islice(s, off, None, 2)


def m_mapsum(s):
    for x in s:
        yield sum(flat(x))


def m_powerset(s):
    items = []
    it = iter(s)
    yield []
    k = 1
    while True:
        while (1 << len(items)) <= k:
            items.append(next(it))
        yield [items[i] for i in range(len(items)) if k >> i & 1]
        k += 1


def m_sublists(s):
    items = []
    for x in s:
        items.append(x)
        for start in range(len(items)):
            yield items[start:]


def m_cart2(s):
    for x in s:
        yield [x, 1]
        yield [x, 2]


def m_truthy_idx(s):
    for i, x in enumerate(s):
        if x:
            yield i


# name -> dict(text, a, b, model, needs, gives, in_list_ok)
#   need(n) <= a*n + b source items for n output items
#   needs: property the input stream must have for the bound to be meaningful ("any", "consec", "inj", "num")
#   keeps: properties of the output given the same property of the input
CAT = {}


def entry(name, text, a, b, model, needs="num", keeps=(), out="num", first_only=False, max_n=None, last_only=False, eager=0,
          judge_values=True):
    # eager: items of its input the stage takes when it is BUILT, whatever is demanded later (ḣ computes the head at once;
    # Ḣ and Ġ look at the first item).  Measured on the given tree for every entry: only these three take anything.
    CAT[name] = dict(name=name, text=text, a=a, b=b, model=model, needs=needs, keeps=set(keeps), out=out,
                     first_only=first_only, max_n=max_n, last_only=last_only, eager=eager, judge_values=judge_values)


ARITH = dict(needs="arith", out="same")
entry("map_dbl", "ƛ2*;", 1, 0, m_map(lambda x: 2 * x), needs="num", keeps=("inj",))
entry("map_inc", "ƛ›;", 1, 0, m_map(lambda x: x + 1), needs="num", keeps=("inj", "consec"))
entry("map_M", "⁽›M", 1, 0, m_map(lambda x: x + 1), needs="num", keeps=("inj", "consec"))
entry("vec_inc", "v›", 1, 0, m_map(lambda x: x + 1), keeps=("inj", "consec"), **ARITH)
entry("inc", "›", 1, 0, m_map(lambda x: x + 1), keeps=("inj", "consec"), **ARITH)
entry("dbl", "d", 1, 0, m_map(lambda x: 2 * x), keeps=("inj",), **ARITH)
entry("add2", "2+", 1, 0, m_map(lambda x: x + 2), keeps=("inj", "consec"), **ARITH)
entry("mul2", "2*", 1, 0, m_map(lambda x: 2 * x), keeps=("inj",), **ARITH)
entry("neg", "N", 1, 0, m_map(lambda x: -x), keeps=("inj",), **ARITH)
entry("square", "²", 1, 0, m_map(lambda x: x * x), **ARITH)
entry("parity", "∷", 1, 0, m_map(lambda x: x % 2), needs="num")
entry("mod2", "2 %", 1, 0, m_map(lambda x: x % 2), needs="num")
entry("idiv2", "2 ḭ", 1, 0, m_map(lambda x: x // 2), needs="num")
entry("halve", "½", 1, 0, m_map(lambda x: Fraction(x, 2)), needs="num", keeps=("inj",), out="rat")
entry("self_add", ":+", 1, 0, m_map(lambda x: 2 * x), keeps=("inj",), **ARITH)
entry("add_nat", "Þ∞ +", 1, 0, m_add_nat, needs="arith", out="same")
entry("filter_odd", "'2%;", 2, 0, m_filter(lambda x: x % 2 == 1), needs="consec", keeps=("inj",))
entry("filter_3", "'3%0=;", 3, 0, m_filter(lambda x: x % 3 == 0), needs="consec", keeps=("inj",))
entry("filter_F", "⁽₂F", 2, 0, m_filter(lambda x: x % 2 == 0), needs="consec", keeps=("inj",))
entry("remove_1", "1 o", 1, 1, m_filter(lambda x: x != 1), needs="inj", keeps=("inj",), out="same")
entry("zip_self", ":Z", 1, 0, m_zip_self, needs="any", out="list", keeps=("inj",))
entry("zip_z", "z", 1, 0, m_zip_self, needs="any", out="list", keeps=("inj",))
entry("zip_nat", "Þ∞ Z", 1, 0, m_zip_nat, needs="any", out="list", keeps=("inj",))
entry("interleave_self", ":Y", 1, 1, m_il_self, needs="any", out="same")
entry("interleave_nat", "Þ∞ Y", 1, 1, m_il_nat, needs="any", out="mixed")
entry("prefixes", "K", 1, 0, m_prefixes, needs="any", out="list", keeps=("inj",))
entry("cumsum", "¦", 1, 1, m_cumsum, needs="num")
entry("deltas", "¯", 1, 1, m_deltas, needs="num")
# parametrised entries are generated for every small parameter value (size thresholds / fast paths for 1)
for _k in (1, 2, 3, 4):
    entry(f"windows{_k}", f"{_k}l", 1, _k - 1, m_windows(_k), needs="any", out="list", keeps=("inj",))
    entry(f"chunks{_k}", f"{_k}ẇ", _k, 0, m_chunks(_k), needs="any", out="list", keeps=("inj",))
entry("flatten", "f", 1, 0, m_flatten, needs="nonempty", out="num")
entry("enumerate", "ė", 1, 0, m_enumerate, needs="any", out="list", keeps=("inj",))
entry("prepend0", "0p", 1, -1, m_prepend0, needs="any", out="same")  # the first item needs nothing from the source
entry("append0", "0 J", 1, 0, m_ident, needs="any", out="same", keeps=("inj", "consec"))
entry("merge_nat", "Þ∞ J", 1, 0, m_ident, needs="any", out="same", keeps=("inj", "consec"))
for _k in (0, 1, 2, 3, 5, 8):
    entry(f"from{_k}", f"{_k}ȯ", 1, _k, m_drop(_k), needs="any", out="same", keeps=("inj", "consec"))
entry("behead", "Ḣ", 1, 1, m_drop(1), needs="any", out="same", keeps=("inj", "consec"), eager=1)
entry("head_extract", "ḣ $ _", 1, 1, m_drop(1), needs="any", out="same", keeps=("inj", "consec"), eager=1)
entry("uniquify", "U", 1, 0, m_ident, needs="inj", out="same", keeps=("inj", "consec"))
entry("uniq_mask", "ÞU", 1, 0, m_uniq_mask, needs="num", out="num")
entry("group", "Ġ", 1, 1, m_group, needs="inj", out="list", keeps=("inj",), eager=1)
entry("every_2nd_fn", "⁽› ẇ", 1, 0, m_every_other(lambda x: x + 1, False), needs="num")
entry("every_2nd_fn2", "⁽d Ẇ", 1, 0, m_every_other(lambda x: 2 * x, True), needs="num")
entry("unint_a", "y _", 2, 0, m_step2(0), needs="any", out="same", keeps=("inj",))
entry("unint_b", "y $ _", 2, 0, m_step2(1), needs="any", out="same", keeps=("inj",))
entry("every_2nd", "2 Ḟ", 2, 0, m_step2(0), needs="any", out="same", keeps=("inj",))
entry("every_1st", "1 Ḟ", 1, 0, m_ident, needs="any", out="same", keeps=("inj", "consec"))
entry("every_3rd", "3 Ḟ", 3, 0, lambda s: itertools.islice(s, 0, None, 3), needs="any", out="same", keeps=("inj",))
# flatten where a SUBLIST is itself infinite: only the first sublist is ever reached
entry("wrap_flatten", "w f", 1, 0, m_ident, needs="num", out="num", keeps=("inj", "consec"))
entry("pair_flatten", ": \" f", 1, 0, m_ident, needs="num", out="num", keeps=("inj", "consec"))
entry("nested_inf_flatten", "ƛ Þ∞ + ; f", 1, 0, lambda s: (next(iter([x])) + i + 1 for x in itertools.islice(s, 1) for i in itertools.count()),
      needs="num", out="num", first_only=True)
entry("wrap_head", "w h", 1, 0, m_ident, needs="any", out="same", keeps=("inj", "consec"))
# a reverse of the infinite list that is created but never demanded
entry("bifurcate_drop", "Ḃ _", 1, 1, m_ident, needs="any", out="same", keeps=("inj", "consec"))
entry("mirror", "m", 1, 1, m_ident, needs="any", out="same", keeps=("inj", "consec"))
# transformations that can only ever produce max_n items from this source: the LAST available item must be reachable
# without looking for one more (asking for more than max_n items is a legitimate hang and is never demanded)
entry("filter_le5", "λ5≤;F", 1, 0, m_filter(lambda x: x <= 5), needs="consec", out="num", first_only=True, last_only=True, max_n=5)
entry("mod7_uniq", "7 % U", 1, 0, lambda s: (x % 7 for x in itertools.islice(s, 7)), needs="consec", out="num", first_only=True,
      last_only=True, max_n=7)
entry("filter_le1", "λ1≤;F", 1, 0, m_filter(lambda x: x <= 1), needs="consec", out="num", first_only=True, last_only=True, max_n=1)
# interleaving the source with an exhaustible transformation of itself: the items before the exhaustible side runs dry
# must arrive without asking that side for one more (x0 f0 x1 f1 ... x4 f4 x5 = 11 items)
entry("interleave_exhaustible", ": λ5≤;F Y", 1, 1, lambda s: (v for i, x in enumerate(itertools.islice(s, 6)) for v in ((x, x) if i < 5 else (x,))),
      needs="consec", out="num", first_only=True, last_only=True, max_n=11)
# a sparse head: the first item is far away, everything after it is dense (offsets must not be paid before they are due)
class ModelRaises(Exception):
    pass


def m_cumsum_inf_rows(s):
    acc = k = 0
    for x in s:
        acc, k = acc + x, k + 1
        yield [acc + k, acc + 2 * k]


def _is_prime(x):
    return x > 1 and all(x % d for d in range(2, int(x ** 0.5) + 1))


def m_raises_from_20(s):
    for x in s:
        if x >= 20:
            raise ModelRaises()
        yield x


# items that are themselves infinite lists, accumulated by a scan: the k-th running row is a lazy sum of k infinite rows
entry("cumsum_inf_rows", "ƛ Þ∞ + ; ¦ ƛ 2 Ẏ ;", 1, 1, m_cumsum_inf_rows, needs="consec", out="list", first_only=True, last_only=True)
entry("scan_inf_rows", "ƛ Þ∞ + ; ɖ+ ƛ 2 Ẏ ;", 1, 1, m_cumsum_inf_rows, needs="consec", out="list", first_only=True, last_only=True)
# removing the items of an INFINITE (ascending) list from the stream: among 2n+4 consecutive integers at least n are composite
# (values are not judged: on the given tree membership in an infinite list ignores what the list has already generated, so
# what is removed depends on the history of earlier membership tests -- termination and the pull bound do not)
entry("remove_primes", "Þp F", 2, 4, m_filter(lambda x: not _is_prime(x)), needs="consec", out="num", keeps=("inj",),
      first_only=True, last_only=True, judge_values=False)
# a filter whose test fails for every item from some point on: a demand beyond that point ends with the error (a counted
# discard), it does not search on for ever
entry("filter_raises_late", "λ 20 < [ 1 | 1 0 % ] ; F", 1, 1, m_raises_from_20, needs="consec", out="num", keeps=("inj", "consec"),
      first_only=True, last_only=True)
entry("filter_gt50", "λ50>;F", 1, 50, m_filter(lambda x: x > 50), needs="consec", out="num", keeps=("inj", "consec"), first_only=True)
# indexing by an INFINITE list of indices
entry("index_inf", "Þ∞ İ", 1, 1, m_drop(1), needs="any", out="same", keeps=("inj", "consec"))
entry("index_inf2", "Þ∞ 2 * İ", 2, 1, lambda s: itertools.islice(s, 2, None, 2), needs="any", out="same", keeps=("inj",))
entry("map_inf_head", "ƛ Þ∞ + ; ƛ h ;", 1, 0, m_map(lambda x: x + 1), needs="num", out="num", keeps=("inj", "consec"))
entry("zip_shifted", ": › Z", 1, 0, lambda s: ([x, x + 1] for x in s), needs="num", out="list", keeps=("inj",))
entry("map_sum", "ƛ∑;", 1, 0, m_mapsum, needs="list", out="num")
entry("powerset", "ṗ", 1, 0, m_powerset, needs="any", out="list", first_only=True)
entry("sublists", "ÞS", 1, 0, m_sublists, needs="any", out="list", first_only=True)
entry("cartesian2", "2 Ẋ", 1, 1, m_cart2, needs="any", out="list", first_only=True)
entry("truthy_idx", "T", 1, 0, m_truthy_idx, needs="any", out="num", first_only=True)
# a stream of strings (the all-strings fast paths of chunking / joining)
entry("map_str", "ƛS;", 1, 0, lambda s: (str(x) for x in s), needs="num", out="str", keeps=("inj",))
entry("str_suffix", "`a` +", 1, 0, lambda s: (str(x) + "a" for x in s), needs="str", out="str", keeps=("inj",))
# dyads whose other operand is a FINITE list: behaviour past the end of the shorter side
entry("zip_fin", "⟨7|8|9⟩ Z", 1, 0, m_zip_fin(False), needs="any", out="list", keeps=("inj",))
entry("zip_fin_l", "⟨7|8|9⟩ $ Z", 1, 0, m_zip_fin(True), needs="any", out="list", keeps=("inj",))
entry("add_fin", "⟨7|8|9⟩ +", 1, 0, m_arith_fin(lambda x, f: x + (f or 0)), needs="num")
entry("add_fin_l", "⟨7|8|9⟩ $ +", 1, 0, m_arith_fin(lambda x, f: x + (f or 0)), needs="num")
entry("mul_fin", "⟨7|8|9⟩ *", 1, 0, m_arith_fin(lambda x, f: x * (f or 0)), needs="num")
entry("sub_fin", "⟨7|8|9⟩ -", 1, 0, m_arith_fin(lambda x, f: x - (f or 0)), needs="num")
entry("il_fin", "⟨7|8|9⟩ Y", 1, 1, m_il_fin(False), needs="any", out="mixed")
entry("il_fin_l", "⟨7|8|9⟩ $ Y", 1, 1, m_il_fin(True), needs="any", out="mixed")
entry("prepend_fin", "⟨7|8|9⟩ $ J", 1, -3, m_prepend_fin, needs="any", out="mixed")
entry("cart_fin", "⟨7|8⟩ Ẋ", 1, 1, m_cart_fin, needs="any", out="list", first_only=True)

NAMES = sorted(CAT)


def compatible(prev_out, props, e):
    """Can entry e follow a stage whose output is prev_out ('num'/'list'/'mixed') with stream props?"""
    need = e["needs"]
    if need == "any":
        return True
    if need == "str":
        return prev_out in ("num", "str")
    if prev_out in ("str", "strlist"):
        return need == "inj" and "inj" in props  # uniquify / group / remove work on any distinct items
    if need == "num":
        return prev_out == "num"
    if need == "arith":
        return prev_out in ("num", "list", "list2")
    if need == "consec":
        return prev_out == "num" and "consec" in props
    if need == "inj":
        return "inj" in props and prev_out in ("num", "list", "list2")
    if need == "list":
        return prev_out == "list"
    if need == "nonempty":
        return prev_out in ("num", "list", "list2")
    return False


def out_type(prev_out, e):
    o = e["out"]
    if o == "same":
        return prev_out
    if o == "mixed":
        return "strlist" if prev_out in ("str", "strlist") else "mixed"
    if o == "list":
        if prev_out in ("str", "strlist"):
            return "strlist"
        return "list" if prev_out == "num" else "list2"
    if o == "mixed" and prev_out in ("str", "strlist"):
        return "strlist"
    return o


def valid(stages):
    """A chain is judged only if every stage gets the kind of stream its bound assumes."""
    out, props = "num", {"inj", "consec"}
    for i, name in enumerate(stages):
        e = CAT.get(name)
        if e is None or not compatible(out, props, e) or (e["first_only"] and i > 0):
            return False
        if i > 0 and (CAT[stages[i - 1]]["last_only"] or (CAT[stages[i - 1]]["first_only"] and
                                                           stages[i - 1] not in ("filter_gt50",))):
            return False
        props = props & e["keeps"]
        out = out_type(out, e)
    return True


def need_of(stages, n):
    """Source items needed for n items of the last stage (composition of the affine per-stage needs)."""
    k = n
    for name in reversed(stages):
        e = CAT[name]
        k = max(0, e["a"] * k + e["b"]) if k > 0 else 0  # nothing is needed for nothing ...
        k = max(k, e["eager"])                             # ... except what a stage takes when it is built
    return k


def bound_of(stages, n):
    return 2 * need_of(stages, n) + 16 * len(stages)


def model_of(stages, n):
    def nat():
        i = 0
        while True:
            i += 1
            yield i
    s = nat()
    for name in stages:
        s = CAT[name]["model"](s)
    return list(itertools.islice(s, n))


def norm_model(v):
    if isinstance(v, Fraction):
        return v.numerator if v.denominator == 1 else ["q", v.numerator, v.denominator]
    if isinstance(v, list):
        return [norm_model(x) for x in v]
    return v


class C14(core.Check):
    id = "C14"
    title = "Finite prefixes of infinite lists are computed lazily and terminate"
    tiers = {
        "quick": dict(runs=60_000, batch=150, wall=80),
        "thorough": dict(runs=450_000, batch=500, wall=840),
    }
    per_run_timeout = 60
    components_real = ["vyxal/LazyList.py", "vyxal/elements.py (the catalogued elements, vectorise, vy_map, vy_filter, "
                       "index, deep_copy paths)", "vyxal/helpers.py", "vyxal/transpile.py, lexer, parser (pipelines are "
                       "real program text)"]
    components_stub = ["the infinite source: a harness generator that counts pulls and enforces the pull budget"]
    fault_kinds = ["abandon (close a half-consumed consumer)", "pull-budget exhaustion as the stand-in for a hang",
                   "step-budget exhaustion as the stand-in for a spin"]
    assumptions = [
        "per-stage bounds a*n+b are composed, doubled, and given 16 pulls of slack per stage, so reading a few items "
        "ahead is never an alarm",
        "density-sensitive transformations (filters, uniquify, remove, group) are only placed where the input stream "
        "keeps the property their bound needs",
    ]
    rule = ("one run = a pipeline of 1-3 catalogued transformations (95 entries) applied by transpiled program text to an "
            "instrumented infinite source, plus a demand schedule (index / first-n / stepping / resumption / two "
            "pipelines over `:`-copies pulled alternately / abandonment), n <= 40. distinct = distinct (pipeline(s), "
            "demand pattern, n); non-trivial = every run (each is judged on termination, pull bound and values).")

    def setup(self):
        self.m = world.install_seams()
        world.CLOCK.install()
        self.LazyList = self.m["LazyList"].LazyList

    # -------------------------------------------------------------------------------- generation
    def gen_pipeline(self, r, maxlen):
        k = r.choice([1, 1, 2, 2, 3][: max(1, maxlen + 2)]) if maxlen >= 3 else r.randint(1, maxlen)
        stages, out, props = [], "num", {"inj", "consec"}
        for i in range(k):
            cands = [n for n in NAMES if compatible(out, props, CAT[n]) and not (CAT[n]["first_only"] and i > 0)]
            if i > 0:
                # after a first_only stage nothing is chained (their bounds are not affine in the index), except the
                # sparse-head filter, whose stream is dense again after its offset
                if CAT[stages[-1]]["last_only"] or (CAT[stages[-1]]["first_only"] and stages[-1] != "filter_gt50"):
                    break
            name = r.choice(cands)
            e = CAT[name]
            stages.append(name)
            props = props & e["keeps"]
            out = out_type(out, e)
        return stages

    def gen(self, seed, run, tier):
        rw = sub_rng(seed, self.id, run, "workload")
        rs = sub_rng(seed, self.id, run, "schedule")
        maxlen = rw.choice([1, 2, 3, 3])
        mode = rs.choice(["index", "firstn", "step", "resume", "two", "abandon", "index", "step", "elem_i", "slice_i",
                          "forloop", "head_extract", "elem_i_swapped", "slice_strided", "slice_empty", "stored_copy"])
        n = rs.choice([1, 2, 3, 5, 8, 13, 20, 30, 40]) if rs.random() < 0.5 else rs.randint(1, 40)
        if rs.random() < 0.08:
            n = rs.choice([17, 33, 64, 65, 101, 128, 130])  # size thresholds beyond the statement's n <= 40 (same bound)
        if mode in ("firstn", "slice_i") and rs.random() < 0.15:
            n = 0  # the empty prefix: nothing may be pulled beyond the bound for n = 0, and nothing may hang
        case = dict(mode=mode, n=n, a=self.gen_pipeline(rw, maxlen))
        if mode == "slice_strided":
            case["stride"] = rs.choice([2, 3, 4, 7])
        if mode == "stored_copy":
            # a COPY of the result is stored, read through an element that walks it, and then asked for its prefix again
            case["consume"] = rs.choice(["h", "¦ 3 Ẏ", "d 2 Ẏ", "2 l 2 Ẏ", "3 Ẏ", "1 i", "L" if False else "t" if False else "h"])
            case["store"] = rs.choice(["£ ¥|¥", "→a ←a|←a", "⅛ ¾ h|¾ h"])
        rv_ = sub_rng(seed, self.id, run, "via-input")
        if rv_.random() < 0.1:
            # the infinite list arrives as a program INPUT next to a second list input, instead of sitting on the stack
            case["via_input"] = rv_.choice(["src-first", "src-second"])
        if mode == "resume":
            case["n1"] = rs.randint(1, n)
        if mode == "two":
            case["b"] = self.gen_pipeline(rw, min(maxlen, 2))
            case["nb"] = rs.randint(1, 40)
            case["order"] = [rs.choice("ab") for _ in range(rs.randint(2, 10))]
        if mode == "abandon":
            case["k"] = rs.randint(0, n)
        return case

    # -------------------------------------------------------------------------------- execution
    def run(self, case):
        LL = self.LazyList
        A = list(case["a"])
        B = list(case.get("b") or [])
        mode, n = case["mode"], case["n"]
        if not A or n < 0 or (n == 0 and mode not in ("firstn", "slice_i")) or not valid(A) or (B and not valid(B)):
            return dict(verdict=DISCARD, sig="invalid-chain", log=[], steps=0, hist=None)
        if n > 40 and (mode not in ("index", "firstn", "elem_i", "elem_i_swapped", "slice_i", "slice_strided", "step", "resume")
                       or any(CAT[x]["out"] in ("list", "mixed") or x in ("flatten", "map_sum") for x in A)):
            n = 40  # threshold sizes only where the work per item does not itself grow with n
        if any(CAT[x]["out"] in ("list", "mixed") for x in A):
            # chunks of prefixes (and the like) cost honest work that is CUBIC in the number of source items: keep the
            # source demand of such pipelines at 240 items or fewer, so that the step budget below is a spin detector and
            # not a stopwatch (false alarm under seed 6: `K 4ẇ :Z`, 36 items, 2.9M steps of honest work)
            while n > 1 and need_of(A, n) > 240:
                n -= 1
        caps = [CAT[x]["max_n"] for x in A if CAT[x]["max_n"]]
        if caps:
            n = min(n, min(caps))
            if mode == "resume":
                case = dict(case, n1=min(case.get("n1", 1), n))
            if mode == "abandon":
                case = dict(case, k=min(case.get("k", 0), n))
        if n != case["n"]:
            case = dict(case, n1=min(case.get("n1", 1), n), k=min(case.get("k", 0), n))
        nb = case.get("nb", 0) if mode == "two" else 0
        capsb = [CAT[x]["max_n"] for x in B if CAT[x]["max_n"]]
        if capsb:
            nb = min(nb, min(capsb))
        if B and any(CAT[x]["out"] in ("list", "mixed") for x in B):
            while nb > 1 and need_of(B, nb) > 240:
                nb -= 1
        if mode == "two" and B:
            bound = max(bound_of(A, n), bound_of(B, nb))
        elif mode == "slice_empty":
            bound = bound_of(A, 0)
        elif mode == "stored_copy":
            bound = bound_of(A, max(n, 6))  # the intermediate reading asks for at most 4 items (+1 for a scan, +1 for windows)
        else:
            bound = bound_of(A, n)
        budget = 4 * bound + 64
        pulls = [0]

        def source():
            i = 0
            while True:
                i += 1
                pulls[0] += 1
                if pulls[0] > budget:
                    raise PullBudgetExceeded(pulls[0])
                yield i

        textA = " ".join(CAT[s]["text"] for s in A)
        textB = " ".join(CAT[s]["text"] for s in B)
        log = [dict(pipeline=A, text=textA, mode=mode, n=n, bound=bound)]
        cov = {f"{mode}:{'+'.join(A)}"}
        faults = {}
        w = world.World(inputs=[])
        via = case.get("via_input")
        if via:
            other = [7, 8, 9]
            w.ctx.inputs[0][0] = [LL(source(), isinf=True), other] if via == "src-first" else [other, LL(source(), isinf=True)]
            input_prefix = "? ? _ " if via == "src-first" else "? ? $ _ "
        else:
            w.stack.append(LL(source(), isinf=True))
            input_prefix = ""
        tm = lambda v: world.to_model(v, LL, 2000)  # noqa
        got = None

        def fail(clause, detail):
            sig = f"{clause}:{'+'.join(A)}" + (f"|{'+'.join(B)}" if B and mode == "two" else "") + f":{mode}"
            log.append(dict(violation=sig, pulls=pulls[0], bound=bound))
            return dict(verdict=VIOLATION, sig=sig, detail=f"pipeline={textA!r} mode={mode} n={n}: {detail}", log=log,
                        steps=world.CLOCK.steps, cov=sorted(cov), faults=faults, hist=core.digest(case))

        def item_list(res, k):
            return [tm(res[i]) for i in range(k)]

        judge_v = all(CAT[x]["judge_values"] for x in A)

        # prefixes / windows make the WORK quadratic in the number of source items although the pulls stay linear
        nd = need_of(A, max(n, 1)) + (need_of(B, max(nb, 1)) if mode == "two" and B else 0)
        step_budget = min(60_000_000, STEP_BUDGET + 40 * nd ** 2 + 5 * nd ** 3)
        world.CLOCK.start(budget=step_budget)
        idle = {"cpu": time.process_time(), "n": 0}

        def tick(signum, frame):
            # wall-clock seconds in which this process used (next to) no CPU: it is not computing, it is WAITING
            cpu = time.process_time()
            idle["n"] = idle["n"] + 1 if cpu - idle["cpu"] < 0.02 else 0
            idle["cpu"] = cpu
            if idle["n"] >= 3:
                raise Blocked()

        old_handler = signal.signal(signal.SIGALRM, tick)
        signal.setitimer(signal.ITIMER_REAL, 1.0, 1.0)
        try:
            with world.rec_limit(900):
                if mode == "two" and B:
                    prog = f": {textA} $ {textB}"
                else:
                    prog = textA
                prog = input_prefix + prog
                if mode == "firstn":
                    prog = prog + f" {n} Ẏ"
                elif mode == "stored_copy":
                    put, get = case.get("store", "£ ¥|¥").split("|")
                    # exhaustible transformations (a cap on n) are only asked for their head in between
                    consume = "h" if caps else case.get("consume", "h")
                    prog = prog + f" : _ {put} {consume} _ {get} {n} Ẏ"
                elif mode == "elem_i":
                    prog = prog + f" {n - 1} i"                      # the index element with a number
                elif mode == "elem_i_swapped":
                    prog = prog + f" {n - 1} $ i"                    # ... with the number BELOW the list (b[a] overload)
                elif mode == "slice_i":
                    prog = prog + f" ⟨0|{n}⟩ i"                      # the index element with a [start, stop] list
                elif mode == "slice_strided":
                    # [0, stop, stride] with the last selected index = n - 1: nothing beyond it may be touched
                    st_ = case.get("stride", 2)
                    last_ = ((n - 1) // st_) * st_
                    prog = prog + f" ⟨0|{last_ + st_}|{st_}⟩ i"
                elif mode == "slice_empty":
                    prog = prog + f" ⟨{n + 2}|2⟩ i"                  # start beyond stop: an empty result, nothing to pull
                elif mode == "forloop":
                    prog = prog + f" ( n ⅛ ¾ L {n} ≥ [ X ] )"        # step through a for loop, leave it with a break
                elif mode == "head_extract":
                    prog = prog + " " + " ".join(["ḣ $ ⅛"] * min(n, 12))  # take the head off, n times
                w.run_code(w.compile_program(prog))
                if mode == "two" and B:
                    resA, resB = w.stack[-2], w.stack[-1]
                    if not isinstance(resA, LL) or not isinstance(resB, LL):
                        return dict(verdict=DISCARD, sig="not-lazy", log=log, steps=world.CLOCK.steps, hist=None)
                    ia = ib = 0
                    for who in case.get("order", []):
                        if who == "a" and ia < n:
                            ia = min(n, ia + max(1, n // 3))
                            resA[ia - 1]
                        elif who == "b" and ib < nb:
                            ib = min(nb, ib + max(1, nb // 3))
                            resB[ib - 1]
                        log.append(dict(ev="demand", who=who, upto=[ia, ib], pulls=pulls[0]))
                    resA[n - 1]
                    resB[nb - 1]
                    pulled = pulls[0]
                    got = item_list(resA, min(n, 8))
                    gotB = item_list(resB, min(nb, 8))
                else:
                    res = w.stack[-1] if w.stack else None
                    if mode in ("elem_i", "elem_i_swapped", "slice_i", "forloop", "head_extract", "slice_strided", "slice_empty"):
                        pulled = pulls[0]
                        k_ = min(n, 12) if mode == "head_extract" else n
                        if mode in ("elem_i", "elem_i_swapped"):
                            got_items, want_items = [tm(res)], [norm_model(x) for x in model_of(A, n)][-1:]
                        elif mode == "slice_i":
                            if isinstance(res, LL):
                                res = res.listify()
                            got_items, want_items = [tm(x) for x in res], [norm_model(x) for x in model_of(A, n)]
                        elif mode == "slice_strided":
                            if isinstance(res, LL):
                                res = res.listify()
                            st_ = case.get("stride", 2)
                            got_items = [tm(x) for x in res]
                            want_items = [norm_model(x) for x in model_of(A, n)][::st_]
                        elif mode == "slice_empty":
                            if isinstance(res, LL):
                                res = res.listify()
                            got_items, want_items = [tm(x) for x in res], []
                        else:
                            got_items = [tm(x) for x in w.ctx.global_array]
                            want_items = [norm_model(x) for x in model_of(A, k_)]
                        log.append(dict(pulls=pulled, bound=bound, got=got_items[:8]))
                        if pulled > bound:
                            return fail("pulls", f"{pulled} pulls from the source > bound {bound}")
                        if got_items != want_items and judge_v:
                            return fail("value", f"{mode}: got {got_items[:8]} != model {want_items[:8]}")
                        cov.add(f"n:{min(n // 10, 4)}:{mode}:{len(A)}")
                        return dict(verdict=OK, sig="", log=log, steps=world.CLOCK.steps + pulled, cov=sorted(cov), faults=faults,
                                    hist=core.digest(case), probes={"stages": len(A), "two": 0})
                    if mode in ("firstn", "stored_copy"):
                        if isinstance(res, LL):
                            res = res.listify()
                        if not isinstance(res, list):
                            return dict(verdict=DISCARD, sig="not-list", log=log, steps=world.CLOCK.steps, hist=None)
                        pulled = pulls[0]
                        if len(res) != n:
                            return fail("value", f"first-{n} returned {len(res)} items")
                        got = [tm(x) for x in res[:8]]
                    else:
                        if not isinstance(res, LL):
                            return dict(verdict=DISCARD, sig="not-lazy", log=log, steps=world.CLOCK.steps, hist=None)
                        if mode == "index":
                            res[n - 1]
                        elif mode == "step":
                            it = iter(res)
                            for _ in range(n):
                                next(it)
                        elif mode == "resume":
                            res[case["n1"] - 1]
                            log.append(dict(ev="demand", upto=case["n1"], pulls=pulls[0]))
                            res[n - 1]
                        elif mode == "abandon":
                            it = iter(res)
                            for _ in range(case["k"]):
                                next(it)
                            it.close()
                            faults["abandon"] = 1
                            log.append(dict(ev="abandon", after=case["k"], pulls=pulls[0]))
                            res[n - 1]
                        pulled = pulls[0]
                        got = item_list(res, min(n, 8))
        except PullBudgetExceeded:
            faults["pull_budget"] = 1
            return fail("hang", f"pull budget {budget} exhausted (bound {bound})")
        except world.StepBudgetExceeded:
            faults["step_budget"] = 1
            return fail("spin", f"step budget {step_budget} exhausted after {pulls[0]} pulls")
        except Blocked:
            faults["blocked"] = 1
            return fail("hang", f"blocked after {pulls[0]} pulls: three seconds without using any CPU (waiting for a lock or a read "
                                "that never comes)")
        except world.ValueTooBig:
            return dict(verdict=DISCARD, sig="too-big", log=log, steps=world.CLOCK.steps, hist=None)
        except Exception as e:
            # an element that raises has terminated without forcing: not what C14 states; counted, not judged
            log.append(dict(raised=repr(e)[:200]))
            return dict(verdict=DISCARD, sig="raised:" + type(e).__name__, log=log, steps=world.CLOCK.steps, hist=None)
        finally:
            signal.setitimer(signal.ITIMER_REAL, 0)
            signal.signal(signal.SIGALRM, old_handler)
            steps = world.CLOCK.stop()
        log.append(dict(pulls=pulled, bound=bound, first=got))
        if pulled > bound:
            return fail("pulls", f"{pulled} pulls from the source > bound {bound}")
        try:
            want = [norm_model(x) for x in model_of(A, min(n, 8))]
        except ModelRaises:
            return fail("value", f"first items {got} delivered where the pipeline's own test raises")
        if got != want and judge_v:
            return fail("value", f"first items {got} != model {want}")
        if mode == "two" and B:
            wantB = [norm_model(x) for x in model_of(B, min(nb, 8))]
            if gotB != wantB and all(CAT[x]["judge_values"] for x in B):
                return fail("value", f"second pipeline {textB!r}: first items {gotB} != model {wantB}")
        cov.add(f"n:{min(n // 10, 4)}:{mode}:{len(A)}")
        return dict(verdict=OK, sig="", log=log, steps=steps + pulled, cov=sorted(cov), faults=faults,
                    hist=core.digest(case), probes={"stages": len(A), "two": int(mode == "two")})

    # -------------------------------------------------------------------------------- shrinking
    def shrink(self, case):
        A = case["a"]
        if case["mode"] != "index":
            yield {"mode": "index", "n": case["n"], "a": A}
        for i in range(len(A)):
            if len(A) > 1:
                yield dict(case, a=A[:i] + A[i + 1:])
        if case.get("b"):
            B = case["b"]
            for i in range(len(B)):
                if len(B) > 1:
                    yield dict(case, b=B[:i] + B[i + 1:])
        for nn in sorted({1, 2, case["n"] // 2, case["n"] - 1}):
            if 1 <= nn < case["n"]:
                c = dict(case, n=nn)
                if "n1" in c:
                    c["n1"] = min(c["n1"], nn)
                if "k" in c:
                    c["k"] = min(c["k"], nn)
                yield c

    def sig_class(self, sig):
        return sig.split(":")[0] + ":" + sig.split(":")[1]

    def same_failure(self, a, b):
        return a["sig"].split(":")[0] == b["sig"].split(":")[0]


CHECK = C14()
