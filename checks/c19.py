"""C19 — online mode contains the program: no host output, no evaluation of user text, errors in the
error record.

Every clause is about the environment, so every clause is checked at a seam the simulator owns:
host stdout/stderr (recording streams), the caller's record (SimDictProxy: get and set are separate
logged events), Python compile/eval/exec (audit hook + an importable canary), the error channel,
and -- layer "flask" -- the real flask_app handlers on a stub flask with a simulated
multiprocessing (SimProcess runs the real execute_vyxal as the child under the step clock).

Faults: element failure at the k-th call of a seeded element function (biased to land inside a
lambda under a lazy map so that it fires during implicit output), stdin EOF / OSError, kill at step
k (timeout with a slow child, or a /kill request at child step k), network error / tainted payload.
"""

from __future__ import annotations

import importlib
import os
import shutil
import sys
import tempfile
import types

from sim import canary, core, progs, repo, world
from sim.core import OK, VIOLATION, DISCARD, sub_rng

STEP_BUDGET = 40_000
CANARY_EXPR = "__import__('verif_canary').hit('{tag}')"
CANARY_STMT = "import verif_canary; verif_canary.hit('{tag}')"
# the same side effect dressed as other kinds of text a lenient parser might accept
# text that tries to break out of the Python string literal the transpiler wraps a Vyxal string in
BREAKOUT_SHAPES = ['\\");{c}#', '");{c}#', '\\\\");{c}#', '\\\\\\");{c}#', "');{c}#", '\\n");{c}#', '""");{c}#',
                   '\\");\n{c}#']
HOF_DYADS = ["M", "F", "R", "Z", "o", "ḟ", "ṡ", "ẇ", "Ẇ", "Ḟ", "İ", "Ẋ", "Þ↓", "Þ↑", "ÞZ", "ȯ", "r", "ẋ", "ḭ", "↔"]
CANARY_SHAPES = [
    "{c}", "{c}", "({c})", " {c}", "1 if {c} else 0", "0+{c}", "2**{c}", "-3 + len(str({c}))", "3/4 if {c} else 1/4",
    "[{c}]", "[1, {c}]", "({c},)", "{{1: {c}}}", "f'{{{c}}}'", "(lambda: {c})()", "1.5*{c}", "7 and {c}", "0x10 + {c}",
]
OUT_FLAGS = list("jsdSCWJLlGgoOc…ṪṡP")
FAIL_TARGETS = ["add", "multiply", "increment", "decrement", "vy_str", "is_even", "halve", "negate", "vy_sum", "merge",
                "length", "head", "tail", "reverse", "deep_flatten", "vy_repr", "uniquify", "inclusive_one_range",
                "join", "center", "vertical_join", "monadic_maximum", "monadic_minimum", "vy_type", "boolify", "index"]
FAIL_EXC = {"ValueError": ValueError, "TypeError": TypeError, "RecursionError": RecursionError,
            "ZeroDivisionError": ZeroDivisionError, "IndexError": IndexError, "KeyError": KeyError}


class SimDictProxy:
    """Stands in for multiprocessing.Manager().dict(): every get and set is a separate logged event."""

    def __init__(self):
        self.d = {}
        self.events = []
        self.dead = False  # the writer process has been killed: nothing it does afterwards reaches the manager

    def freeze(self):
        self.dead = True

    def __getitem__(self, k):
        self.events.append(("get", k, world.CLOCK.steps))
        return self.d[k]

    def __setitem__(self, k, v):
        if self.dead:
            self.events.append(("set-after-kill-ignored", k, world.CLOCK.steps))
            return
        self.events.append(("set", k, world.CLOCK.steps))
        self.d[k] = v

    def __contains__(self, k):
        return k in self.d


class InjectedFault:
    def __init__(self):
        self.target = None
        self.at = 0
        self.exc = ValueError
        self.calls = 0
        self.fired = 0
        self.census = {}


class C19(core.Check):
    id = "C19"
    title = "Online mode contains the program: no host output, no evaluation of user text"
    tiers = {
        "quick": dict(runs=4_000, batch=100, wall=85),
        "thorough": dict(runs=150_000, batch=300, wall=840),
    }
    per_run_timeout = 60
    components_real = ["vyxal/main.py execute_vyxal (online and offline)", "vyxal/helpers.py vy_eval, get_input", "vyxal/"
                       "elements.py vy_print, function_call, vy_exec, exp2_or_eval, request, all elements of the grammar",
                       "vyxal/LazyList.py output", "vyxal/transpile.py, lexer, parser",
                       "flask_app.py execute / kill / index handlers (layer flask)"]
    components_stub = ["flask, flask_cors (20-line stubs: Flask.route, request.form, render_template)",
                       "multiprocessing (SimManager / SimDictProxy / SimProcess: the child is the real execute_vyxal run "
                       "in-process under the step clock)", "urllib (payload / error)", "stdin", "secrets", "random",
                       "datetime", "os.system('mkdir sessions') runs in a scratch directory"]
    fault_kinds = ["element failure at k-th call", "stdin EOF/OSError", "kill at step k (timeout)", "/kill request at child "
                   "step k", "network error", "tainted network payload", "canary-carrying inputs and string literals"]
    assumptions = [
        "canary text is never run offline (offline E and † evaluate text by design): runs with canaries skip the "
        "offline reference and are judged by clauses 1, 2, 4",
        "text evaluated through sympy's parser (the ∆ string overloads) is outside the statement's three named routes: "
        "recorded as a probe, never a violation",
        "a simulated kill raises at a Python line boundary inside vyxal / transpiled code",
        "programs using E / † / Ė / ¨U on strings differ between modes by design and are excluded from the "
        "online-equals-offline clause",
    ]
    rule = ("one run = one generated program (C12 grammar plus every printing element and output flag, E, †, Ė, ¨U, "
            "canary-carrying string literals and inputs) executed by the real execute_vyxal: offline reference (only "
            "without canaries), online fault-free, and online with one seeded fault (element failure / kill at step k / "
            "stdin fault / network fault); 30% of runs go through flask_app's handlers instead. distinct = distinct "
            "(program, flags, inputs, fault); non-trivial = the online run was judged on at least clauses 1, 2 and 4.")

    def setup(self):
        self.m = world.install_seams()
        world.CLOCK.install()
        canary.install()
        self.LazyList = self.m["LazyList"].LazyList
        self.main = self.m["main"]
        self.el = self.m["elements"]
        self.fault = InjectedFault()
        self.print_depth = 0
        self.prints_done = 0
        self.chunks = []
        self._wrap_print()
        self._wrap_vy_eval()
        self._wrap_fail_targets()
        self.flask = None

    # ---------------------------------------------------------------------------- seams
    def _wrap_print(self):
        orig = self.el.vy_print
        if getattr(orig, "__verif_wrapped__", False):
            return
        chk = self

        def vy_print(*a, **k):  # transparent wrapper
            chk.print_depth += 1
            start = chk.out.tell() if chk.out is not None else 0
            try:
                r = orig(*a, **k)
            except BaseException:
                chk.print_depth -= 1
                raise
            chk.print_depth -= 1
            if chk.print_depth == 0:
                chk.prints_done += 1
                if chk.out is not None:
                    chk.chunks.append(chk.out.getvalue()[start:])
            return r

        vy_print.__verif_wrapped__ = True
        self.out = None
        self.el.vy_print = vy_print
        self.main.vy_print = vy_print
        if hasattr(self.m["transpile"], "vy_print"):
            self.m["transpile"].vy_print = vy_print

    def _wrap_vy_eval(self):
        """count calls of helpers.vy_eval: a program that reaches it (E, J on two numbers, ...) differs between the
        offline and online modes by design, so the record==offline clause does not apply to that run"""
        orig = self.m["helpers"].vy_eval
        if getattr(orig, "__verif_wrapped__", False):
            return
        chk = self

        def vy_eval(*a, **k):  # transparent: whatever signature the function has (or gets) is the original's
            chk.vy_eval_calls += 1
            return orig(*a, **k)

        vy_eval.__verif_wrapped__ = True
        self.vy_eval_calls = 0
        for name in ("helpers", "elements", "main", "transpile"):
            if hasattr(self.m[name], "vy_eval"):
                setattr(self.m[name], "vy_eval", vy_eval)

    def _wrap_fail_targets(self):
        chk = self
        for name in FAIL_TARGETS:
            orig = getattr(self.el, name, None)
            if orig is None or getattr(orig, "__verif_wrapped__", False):
                continue

            def make(orig, name):
                import functools
                import inspect

                sig = inspect.signature(orig)

                @functools.wraps(orig)
                def wrapper(*a, **k):
                    f = chk.fault
                    f.census[name] = f.census.get(name, 0) + 1
                    if f.target == name:
                        f.calls += 1
                        if f.calls == f.at:
                            f.fired += 1
                            raise f.exc(f"injected failure in {name} (call {f.at})")
                    return orig(*a, **k)

                wrapper.__verif_wrapped__ = True
                wrapper.__signature__ = sig  # helpers.takes_ctx -> inspect.getfullargspec honours __signature__
                del wrapper.__wrapped__
                return wrapper

            w = make(orig, name)
            # helpers.takes_ctx uses inspect.getfullargspec, which honours __signature__
            setattr(self.el, name, w)
            for modname in ("main", "transpile"):
                if getattr(self.m[modname], name, None) is orig:
                    setattr(self.m[modname], name, w)

    # ---------------------------------------------------------------------------- generation
    def gen(self, seed, run, tier):
        rw = sub_rng(seed, self.id, run, "workload")
        rf = sub_rng(seed, self.id, run, "faults")
        cfg = dict(
            max_depth=rw.choice([1, 2, 3]),
            p_exit=rw.choice([0.0, 0.2]),
            p_x_over_X=0.2,
            p_print=rw.choice([0.1, 0.2, 0.3]),
            weights=[3, 1, 1, 2, 3, 5, 2, 1, 1, 2, 1, 4],
        )
        nodes = progs.gen_program(rw, cfg, nstmts=rw.randint(1, 6))
        taint = rw.random() < 0.5
        tag = [0]

        def can(kind="expr"):
            tag[0] += 1
            if kind == "stmt":
                return CANARY_STMT.format(tag=f"k{tag[0]}")
            return rw.choice(CANARY_SHAPES).format(c=CANARY_EXPR.format(tag=f"k{tag[0]}"))

        uses_eval = False
        if rw.random() < 0.55:
            # evaluation routes: E, † on a string, Ė, and the network element followed by E
            for _ in range(rw.randint(1, 3)):
                route = rw.choice(["E", "†", "Ė", "E", "†", "¨U E", "?E", "?†", "vE", "wE", "lit"])
                if route == "lit":
                    s = can() if taint else "1+1"
                    node = ["t", f"`{s}`"]
                elif route.startswith("?"):
                    node = ["t", "? " + route[1:]]
                elif route == "¨U E":
                    node = ["t", "`example.org` ¨U E"]
                elif route in ("vE", "wE"):
                    s = can() if taint else "[1,2]"
                    node = ["t", f"`{s}` w " + ("vE" if route == "vE" else "E")]
                else:
                    s = (can("stmt") if route == "†" and rw.random() < 0.5 else can()) if taint else rw.choice(["1+1", "[1,2,3]", "2", "abc"])
                    node = ["t", f"`{s}` {route}"]
                nodes.insert(rw.randint(0, len(nodes)), node)
                uses_eval = True
        if rw.random() < 0.04:
            # a lot of output in one run (size thresholds in the print path): <count> ( `x` <m> * ₴ ) then more prints
            total = rw.choice([1 << 15, 1 << 16, 1 << 17, 1 << 17, 1 << 18, 1 << 19])
            m_ = 3000
            flood = ["t", f"{total // m_ + 2} ( `x` {m_} * ₴ ) `end` ,"]
            nodes.insert(rw.randint(0, len(nodes)), flood)
        if rw.random() < 0.35:
            # a lambda that prints / evaluates, handed to a higher-order element (does the callee run it under the
            # caller's context?)
            body = rw.choice(["n ,", "n ₴", "`x` ,", "n ¨,", "›", "n …"])
            if taint and rw.random() < 0.6:
                body = rw.choice([f"`{can()}` E _ n", f"`{can('stmt')}` † n", f"`{can()}` E ,"])
                uses_eval = True
            h = rw.choice(HOF_DYADS)
            lst = rw.choice(["⟨1|2|3⟩", "3ɾ", "⟨3|1|2⟩", "⟨⟨1|2⟩|⟨3⟩⟩", "2"])
            tail = rw.choice(["", " W ,", " f ,", " ,", " L ,"])
            nodes.insert(rw.randint(0, len(nodes)), ["t", f"{lst} λ {body} ; {h}{tail}"])
        if taint and rw.random() < 0.3:
            # string literals / exec payloads that try to close the generated Python string
            brk = rw.choice(BREAKOUT_SHAPES).format(c=CANARY_EXPR.format(tag="brk"))
            how = rw.choice(["lit", "lit,", "Ė", "?Ė"])
            if how == "?Ė":
                nodes.insert(rw.randint(0, len(nodes)), ["t", "? Ė"])
                extra_input = "`" + brk + "`"
            else:
                extra_input = None
                nodes.insert(rw.randint(0, len(nodes)), ["t", "`" + brk + "`" + {"lit": "", "lit,": " ,", "Ė": " Ė"}[how]])
            uses_eval = True
        else:
            extra_input = None
        if taint and rw.random() < 0.25:
            # user text in the other syntactic positions the lexer knows: comments (ended only by \n for Vyxal, but Python
            # also breaks lines at \r, \x0b, \x0c, \x1c-\x1e, \x85, \u2028, \u2029), compressed numbers / strings with
            # characters outside the code page, two-character strings, character literals
            c_ = CANARY_EXPR.format(tag="syn")
            sep = rw.choice(["\r", "\x0b", "\x0c", "\x1c", "\x1d", "\x1e", "\x85", "\u2028", "\u2029"])
            kind_ = rw.choice(["comment", "comment", "cnum", "cnum", "cstr", "twochar", "char", "fname", "fname"])
            if kind_ == "comment":
                node = ["t", f"# note{sep}{c_}\n"]
            elif kind_ == "cnum":
                node = ["t", "»" + rw.choice([f"{c_}\t", f"[{c_},7][1]é", f"{c_}", f"1+{c_}\u00e9"]) + "»"]
            elif kind_ == "cstr":
                node = ["t", "«" + rw.choice([f"{c_}\t", f"'+str({c_})+'é", f"{c_}"]) + "«"]
            elif kind_ == "fname":
                # names of functions / parameters are pasted into the generated Python after being sanitised
                node = ["t", rw.choice([f"@`x if 0 else [];{c_};dict`;", f"@x if 0 else [];{c_};dict;", f"@f:`a=0;{c_}#`|1; @f;",
                                        f"@`a\n{c_}\n`;", f"@f;{c_}#;"])]
            elif kind_ == "twochar":
                node = ["t", rw.choice(['‛");', "‛\\\"", "‛'\""]) + f" `{c_}`"]
            else:
                node = ["t", rw.choice(['\\"', "\\'", "\\\\"]) + f" `;{c_}#` +"]
            if rw.random() < 0.3:
                node = ["t", "`" + node[1].replace("`", "") + "` Ė"]
            nodes.insert(rw.randint(0, len(nodes)), node)
            uses_eval = True
        n_in = rw.choice([0, 0, 1, 2, 3])
        inputs = []
        weird = False
        if extra_input is not None:
            inputs.append(extra_input)
        for _ in range(n_in):
            x = rw.random()
            if taint and x < 0.6:
                inputs.append(rw.choice([can(), can(), can(), can("stmt")]))
            elif x < 0.75:
                inputs.append(str(rw.randint(0, 9)))
            elif x < 0.9:
                inputs.append("[" + ",".join(str(rw.randint(0, 9)) for _ in range(rw.randint(0, 3))) + "]")
            elif x < 0.95:
                inputs.append(rw.choice(['"ab"', "abc", "1.5", "-3"]))
            else:
                # valid Python literals that are not Vyxal values, and near-literals
                inputs.append(rw.choice(["1e999", "-1e400", "None", "...", "[1, None]", "{1: 2}", "(1, 2)", "b'x'", "True", "1j",
                                         "{1, 2}", "[[]]", "''", "0x10", "1_000", "[1, [2, [3]]]", "1e3", "nan", "-0.0", "[,]",
                                         "\"unterminated", "9" * 400]))
                weird = True
        flags = "".join(rw.sample(OUT_FLAGS, rw.choice([0, 0, 1, 1, 2])))
        if rw.random() < 0.03:
            flags += "h"
        x_ = rw.random()
        if x_ < 0.04:
            nodes.insert(rw.randint(0, len(nodes)), ["t", rw.choice(["λa|1;", "λ-1|1;", "@f:*|1; @f;", "k"])])  # transpile / run-time errors
        elif x_ < 0.08:
            nodes.insert(rw.randint(0, len(nodes)), ["t", rw.choice(["Q", "1 [ Q ]", "`a` , Q `b` ,"])])
        elif x_ < 0.16:
            nodes.insert(rw.randint(0, len(nodes)), ["t", rw.choice(["λ›; ,", "⟨ λ›; | 2 ⟩ ,", "λ`p`,; ,", "λ2|+; …", "3 λ›; S ,",
                                                                      "⟨ λ`q`₴ 1; ⟩ ,", "λ›; ₴"])])
        elif x_ < 0.20:
            # programs whose generated Python does not compile: the error belongs in the error record like any other
            nodes.insert(rw.randint(0, len(nodes)), ["t", rw.choice(["`\\x`", "`\\N`", "`a\x00b`", "¨…", "1 " + "( 1 " * 21 + ")" * 21,
                                                                      "`\\u12`", "`\\U1`"])])
        elif x_ < 0.24:
            nodes.insert(rw.randint(0, len(nodes)), ["t", rw.choice(["□", "□ ,", "□ E", "□ h E ,"])])
        elif x_ < 0.28:
            # code run through Ė that fails while running (ValueError from chr, SyntaxError from an uncompilable template,
            # a name error): the error is the program's error, online as offline
            nodes.insert(rw.randint(0, len(nodes)), ["t", rw.choice(["`9999999C` Ė", "`¨…` Ė", "`1 9999999C 2` Ė ,", "`←zz` Ė", "`1 0 %` Ė",
                                                                      "`3 ( 9999999C )` Ė `after` ,"])])
        rp_ = sub_rng(seed, self.id, run, "polyglot")
        if rp_.random() < 0.03:
            # a program the PARSER rejects (a lambda whose arity is not an integer) that is at the same time valid Python
            # carrying a payload: whatever the error path does with the text it failed to transpile, it must not run it
            c_ = CANARY_EXPR.format(tag="tp")
            nodes = [["t", rp_.choice([f"λ=1|{c_}", f"λ=[{c_}]|0", "λ=1|print('C19-HOST-OUT')", f"λ=1|{c_}\n", f"λ=0|1;{c_}",
                                      f"λx=1;λx|{c_}", "λ=1|__import__('sys').stdout.write('C19-HOST-OUT')"])]]
            taint, uses_eval = True, True
        fk = rf.choice(["none", "fail", "fail", "kill", "kill", "kill_sweep", "stdin", "net", "stdin_lines"])
        fault = dict(kind=fk)
        if fk == "fail":
            fault.update(target=rf.choice(FAIL_TARGETS), at=rf.randint(1, 6), exc=rf.choice(sorted(FAIL_EXC)),
                         pick=rf.randint(0, 99), pick2=rf.randint(0, 999))
        elif fk == "kill":
            fault.update(frac=round(rf.random(), 3))
        elif fk == "stdin":
            fault.update(after=rf.choice(["EOF", "OSERR", "INTR"]))
        elif fk == "net":
            fault.update(mode=rf.choice(["error", "tainted"]))
        elif fk == "stdin_lines":
            # the host's standard input HAS text (it never should be read online; if it is, it must stay text)
            fault.update(lines=[rf.choice([CANARY_EXPR.format(tag="in1"), "print('leak-to-host')", "[1, 2]", "7"]),
                                rf.choice([CANARY_STMT.format(tag="in2"), "__import__('sys').stdout.write('leak')", ""])])
        if fk == "stdin_lines" and rf.random() < 0.6:
            nodes.insert(rf.randint(0, len(nodes)), ["t", rf.choice(["□", "□ ,", "□ E", "□ h E ,"])])
            if rf.random() < 0.6:
                inputs = [i for i in inputs if False]
        layer = "flask" if rw.random() < 0.3 else "direct"
        if weird:
            uses_eval = True  # eval() and literal_eval() legitimately disagree on these: no online == offline clause
        case = dict(nodes=nodes, inputs=inputs, flags=flags, fault=fault, layer=layer, taint=taint, uses_eval=uses_eval)
        if rw.random() < 0.25:
            # an earlier, harmless OFFLINE execution in the same process (module-level caches must not carry its mode over)
            case["prelude"] = rw.choice(["12 †", "⟨1|2⟩ †", "`1` E", "3 Ė", "1 2 J", "`a` S ,", "3ɾ ,", "λ›; †", "`7` † _", "2 3 ⁽+ R ,",
                                         "`1+1` E ,", "5 ∆c"])
        if layer == "flask":
            case["speed"] = rf.choice([200, 1000, 5000, 100000])  # child steps per simulated second
            case["user_kill_frac"] = rf.choice([None, None, round(rf.random(), 3)])
            # multi-request histories of one browser tab / other tabs loading the page while this one runs
            case["scenario"] = rf.choice(["single", "single", "late_kill_then_slow", "page_loads", "two_runs", "overlap", "overlap"])
            case["page_loads"] = rf.choice([3, 50, 3000])
        return case

    # ---------------------------------------------------------------------------- one execution
    def exec_once(self, text, flags, inputs, online, kill_at=None, fault=None, stdin_after="EOF", net=None, stdin_lines=None):
        """Run the real execute_vyxal once under the seams.  Returns a dict describing what happened."""
        world.World(inputs=[], stdin=stdin_lines, stdin_after=stdin_after)  # resets every seam
        if net:
            payload = (CANARY_EXPR.format(tag="net")).encode() if net == "tainted" else b"1+1"
            world.URLLIB.reset(mode=net, payload=payload)
        else:
            world.URLLIB.reset(mode="ok", payload=b"[1,2]")
        canary.reset()
        canary.ACTIVE[0] = online
        f = self.fault
        f.target, f.calls, f.fired, f.census = None, 0, 0, {}
        if fault and fault.get("kind") == "fail":
            f.target, f.at, f.exc = fault["target"], fault["at"], FAIL_EXC[fault["exc"]]
        rec = SimDictProxy()
        rec.d[1] = ""
        rec.d[2] = ""
        out, err = world.RecordingStdout(), world.RecordingStdout()
        self.out = out
        self.print_depth, self.prints_done, self.chunks = 0, 0, []
        self.vy_eval_calls = 0
        old = (sys.stdout, sys.stderr)
        sys.stdout, sys.stderr = out, err
        outcome = "ok"
        done_at_kill = [None]

        def on_kill():
            # SIGKILL semantics: the record and the count of completed prints are what they are at this instant;
            # `finally` blocks that run while the simulated kill unwinds must not be able to add to them
            rec.freeze()
            done_at_kill[0] = self.prints_done

        world.CLOCK.start(budget=STEP_BUDGET, kill_at=kill_at, count_string=True, on_kill=on_kill)
        try:
            with world.rec_limit():
                if online:
                    self.main.execute_vyxal(text, flags + "e", "\n".join(inputs), rec, True)
                else:
                    self.main.execute_vyxal(text, flags + "e", list(inputs))
        except SystemExit as e:
            outcome = f"exit:{e.code}"
        except world.Killed:
            outcome = "killed"
        except world.StepBudgetExceeded:
            outcome = "budget"
        except world.ValueTooBig:
            outcome = "too-big"
        except RecursionError:
            outcome = "raised:RecursionError"
        except Exception as e:
            outcome = "raised:" + type(e).__name__
        finally:
            steps = world.CLOCK.stop()
            sys.stdout, sys.stderr = old
            canary.ACTIVE[0] = False
            self.out = None
            f.target = None
        return dict(outcome=outcome, stdout=out.getvalue(), stderr=err.getvalue(), rec1=rec.d.get(1, ""),
                    rec2=rec.d.get(2, ""), steps=steps,
                    prints=(done_at_kill[0] if done_at_kill[0] is not None else self.prints_done), chunks=list(self.chunks),
                    hits=list(canary.HITS), compiles=list(canary.COMPILES), fired=f.fired, census=dict(f.census),
                    vy_evals=self.vy_eval_calls,
                    stdin_faults=dict(world.STDIN.faults), net_faults=dict(world.URLLIB.faults),
                    net_calls=len(world.URLLIB.calls))

    # ---------------------------------------------------------------------------- oracle pieces
    def judge_online(self, r, what):
        """Clauses 1, 2, 4 on one online execution. Returns (clause, detail) or None."""
        if r["stdout"] or r["stderr"]:
            return ("host-output", f"{what}: online run wrote to the host's "
                                   f"{'stdout' if r['stdout'] else 'stderr'}: {(r['stdout'] or r['stderr'])[:80]!r}")
        bad = [h for h in r["hits"] if "sympy-parse:" not in h[1]]
        if bad:
            return ("canary-executed", f"{what}: user text was executed as Python via {bad[0][1]} (canary {bad[0][0]})")
        badc = [c for c in r["compiles"] if "sympy-parse:" not in c[1]]
        if badc:
            return ("canary-compiled", f"{what}: user text was compiled as Python via {badc[0][1]}: {badc[0][2]!r}")
        oc = r["outcome"]
        if oc.startswith("raised:"):
            return ("error-escaped", f"{what}: {oc[7:]} propagated out of execute_vyxal in online mode "
                                     f"(error record {r['rec2'][-60:]!r})")
        if oc.startswith("exit:") and oc not in ("exit:0", "exit:None") and not r["rec2"].strip():
            return ("error-unreported", f"{what}: online run exited with {oc} but the error record is empty")
        return None

    def run(self, case):
        if case.get("prelude"):
            self.exec_once(case["prelude"], "", [], False)
        if case.get("layer") == "flask":
            return self.run_flask(case)
        return self.run_direct(case)

    def self_contained(self, case):
        return bool(case.get("prelude"))

    def hist(self, case, text):
        return core.digest([text, case["flags"], case["inputs"], case["fault"], case.get("layer")])

    def run_direct(self, case):
        text = progs.render_body(case["nodes"])
        flags, inputs, fault = case["flags"], case["inputs"], case["fault"]
        log = [dict(program=text, flags=flags, inputs=inputs, fault=fault)]
        cov, faults = set(), {}
        steps = 0
        has_canary = "verif_canary" in text or any("verif_canary" in i for i in inputs)
        mode_dependent = case.get("uses_eval") or any(t in text for t in ("E", "†", "Ė", "¨U")) or "c" in flags
        hist = self.hist(case, text)
        flood = "( `x` " in text
        if flood:
            cov.add("flood-output")

        phase = ["fault-free"]

        def fail(clause, detail):
            sig = f"{clause}:{phase[0]}"
            log.append(dict(violation=sig, detail=detail))
            return dict(verdict=VIOLATION, sig=sig, detail=f"program={text!r} flags={flags!r} inputs={inputs}: {detail}",
                        log=log, steps=steps, cov=sorted(cov), faults=faults, hist=hist)

        # online, fault-free
        on = self.exec_once(text, flags, inputs, True)
        steps += on["steps"]
        log.append(dict(run="online", outcome=on["outcome"], rec1=on["rec1"][:120], rec2=on["rec2"][-80:], steps=on["steps"],
                        hits=on["hits"]))
        if on["outcome"] in ("budget", "too-big"):
            return dict(verdict=DISCARD, sig=on["outcome"], log=log, steps=steps, hist=None)
        for h in on["hits"]:
            if "sympy-parse:" in h[1]:
                cov.add("probe:sympy-parse-evaluates-text")
        v = self.judge_online(on, "fault-free online run")
        if v:
            return fail(*v)
        cov.add("online:" + on["outcome"].split(":")[0])
        # offline reference (never with canaries)
        off = None
        if not has_canary:
            off = self.exec_once(text, flags, inputs, False)
            steps += off["steps"]
            log.append(dict(run="offline", outcome=off["outcome"], stdout=off["stdout"][:120], prints=off["prints"]))
            if on["vy_evals"] > len(inputs) or off["vy_evals"] > len(inputs):
                mode_dependent = True  # the program itself reached vy_eval (E, J on two numbers, ...)
                cov.add("probe:program-reaches-vy_eval")
            # (Ė runs Vyxal code the same way in both modes: it does not make the ERROR behaviour mode-dependent)
            error_md = (case.get("uses_eval") or any(t in text for t in ("E", "†", "¨U")) or "c" in flags
                        or on["vy_evals"] > len(inputs) or off["vy_evals"] > len(inputs))
            if (not error_md and off["outcome"].startswith("raised:")
                    and on["outcome"] == "ok" and not on["rec2"].strip()):
                # the very same program and inputs fail offline, but the online run neither stopped nor reported anything
                return fail("error-lost", f"offline the program ends with {off['outcome']}; online it finished 'normally' with an "
                                          f"empty error record (output record {on['rec1'][:60]!r})")
            if not mode_dependent and off["outcome"] == "ok" and on["outcome"] == "ok":
                if on["rec1"] != off["stdout"]:
                    return fail("record-differs", f"online record {on['rec1'][:80]!r} != offline stdout {off['stdout'][:80]!r}")
                cov.add("record==offline")
        # one injected fault
        fk = fault["kind"]
        phase[0] = {"kill_sweep": "kill"}.get(fk, fk)
        if fk == "fail" and "h" in flags:
            fk = "none"  # the help flag prints and exits before the program runs: there is no element to fail
        if fk == "fail":
            # aim at a function this program really calls (census of the fault-free run), at one of its calls
            called = sorted(n for n, c in on["census"].items() if c > 0)
            if called:
                tgt = called[fault.get("pick", 0) % len(called)]
                fault = dict(fault, target=tgt, at=1 + fault.get("pick2", 0) % on["census"][tgt])
            r = self.exec_once(text, flags, inputs, True, fault=fault)
            steps += r["steps"]
            faults["element_failure"] = r["fired"]
            log.append(dict(run="online+fail", outcome=r["outcome"], fired=r["fired"], rec2=r["rec2"][-80:]))
            if r["outcome"] in ("budget", "too-big"):
                return dict(verdict=DISCARD, sig=r["outcome"], log=log, steps=steps, faults=faults, hist=None)
            v = self.judge_online(r, f"online run with injected {fault['exc']} in {fault['target']} call {fault['at']}")
            if v:
                return fail(*v)
            if r["fired"]:
                cov.add("fail-fired:" + r["outcome"].split(":")[0])
                if r["outcome"] == "ok" and not r["rec2"].strip() and on["outcome"] == "ok":
                    cov.add("probe:injected-failure-swallowed")
        elif fk in ("kill", "kill_sweep") and on["outcome"] == "ok" and on["steps"] > 2:
            if fk == "kill":
                ks = [max(1, min(on["steps"] - 1, int(fault["frac"] * on["steps"])))]
            else:
                n = on["steps"]
                pts = 4 if flood else 40
                ks = list(range(1, n)) if n <= 60 else sorted({max(1, int(n * i / pts)) for i in range(1, pts)})
            for k in ks:
                r = self.exec_once(text, flags, inputs, True, kill_at=k)
                steps += r["steps"]
                if r["outcome"] != "killed":
                    continue
                faults["kill"] = faults.get("kill", 0) + 1
                v = self.judge_online(r, f"online run killed at step {k}")
                if v:
                    return fail(*v)
                if not on["rec1"].startswith(r["rec1"]):
                    return fail("record-not-prefix", f"killed at step {k}: record {r['rec1'][:80]!r} is not a prefix of "
                                                     f"the fault-free record {on['rec1'][:80]!r}")
                if off is not None and not mode_dependent and off["outcome"] == "ok":
                    done = "".join(off["chunks"][: r["prints"]])
                    if not r["rec1"].startswith(done):
                        return fail("output-lost", f"killed at step {k} after {r['prints']} completed prints: record "
                                                   f"{r['rec1'][:80]!r} lacks already printed text {done[:80]!r}")
            log.append(dict(run="online+kill", kills=faults.get("kill", 0), of=len(ks)))
            cov.add("kill")
        elif fk == "stdin":
            r = self.exec_once(text, flags, inputs, True, stdin_after=fault["after"])
            steps += r["steps"]
            for k_, n_ in r["stdin_faults"].items():
                faults["stdin_" + k_] = n_
            log.append(dict(run="online+stdin", outcome=r["outcome"], stdin=r["stdin_faults"]))
            if r["outcome"] not in ("budget", "too-big"):
                v = self.judge_online(r, f"online run with stdin {fault['after']}")
                if v:
                    return fail(*v)
        elif fk == "stdin_lines":
            r = self.exec_once(text, flags, inputs, True, stdin_lines=list(fault["lines"]))
            steps += r["steps"]
            faults["stdin_has_lines"] = 1
            log.append(dict(run="online+stdin-lines", outcome=r["outcome"], stdin_reads=world.STDIN.reads, hits=r["hits"]))
            if r["outcome"] not in ("budget", "too-big"):
                v = self.judge_online(r, "online run while the host's stdin has text")
                if v:
                    return fail(*v)
        elif fk == "net":
            r = self.exec_once(text, flags, inputs, True, net=fault["mode"])
            steps += r["steps"]
            for k_, n_ in r["net_faults"].items():
                faults[k_] = n_
            log.append(dict(run="online+net", outcome=r["outcome"], calls=r["net_calls"], hits=r["hits"]))
            if r["outcome"] not in ("budget", "too-big"):
                v = self.judge_online(r, f"online run with network {fault['mode']}")
                if v:
                    return fail(*v)
        for f_ in case["flags"]:
            cov.add("flag:" + f_)
        return dict(verdict=OK, sig="", log=log, steps=steps, cov=sorted(cov), faults=faults, hist=hist,
                    probes={"canary_run": int(has_canary), "offline_ref": int(off is not None),
                            "online_error_exit": int(on["outcome"].startswith("exit:1"))})

    # ---------------------------------------------------------------------------- layer b: flask_app
    def load_flask(self):
        if self.flask is not None:
            return self.flask
        from sim import flaskstub

        self.flask = flaskstub.load(self)
        return self.flask

    def run_flask(self, case):
        from sim import flaskstub

        fa = self.load_flask()
        return flaskstub.run_case(self, fa, case)

    # ---------------------------------------------------------------------------- shrinking
    def shrink(self, case):
        if case.get("layer") == "flask":
            yield dict(case, layer="direct")
        for nodes in progs.shrink_nodes(case["nodes"]):
            yield dict(case, nodes=nodes)
        if case["flags"]:
            for i in range(len(case["flags"])):
                yield dict(case, flags=case["flags"][:i] + case["flags"][i + 1:])
        inp = case["inputs"]
        for i in range(len(inp)):
            yield dict(case, inputs=inp[:i] + inp[i + 1:])
        if case["fault"]["kind"] == "kill_sweep":
            yield dict(case, fault=dict(kind="kill", frac=0.5))
        if case.get("prelude"):
            c = dict(case)
            del c["prelude"]
            yield c

    def same_failure(self, a, b):
        return a["sig"] == b["sig"]


CHECK = C19()
