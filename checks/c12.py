"""C12 — interpreter context is balanced after every construct.

Driver A ("world"): the program is parsed by the real lexer/parser, every top-level structure is
transpiled and exec'd separately in one namespace, and between structures the scheduler may FORCE
or CLOSE any live lazy value (that is where the body of a `ƛ…X…;` finally runs).  The depth tuple
(len(context_values), len(inputs), len(stacks), len(function_stack)) and the identity of the
top-level context value are asserted after every structure and every scheduler event, and after
the implicit output at the end.

Driver B ("main"): the same program text goes through the real vyxal.main.execute_vyxal (offline
mode, 'e' flag); the Context it creates is captured through a registering subclass and its depths
are compared with what execute_vyxal itself set up before exec.
"""

from __future__ import annotations

import sys
import types

from sim import core, progs, repo, world
from sim.faults import FAULTS, TARGETS, EXC
from sim.core import OK, VIOLATION, DISCARD, sub_rng

STEP_BUDGET = 25_000


def live_lazies(w):
    """Deterministically ordered list of (where, LazyList) reachable from the world's roots."""
    LL = w.LazyList
    out = []

    def visit(where, v, depth=0):
        if isinstance(v, LL):
            out.append((where, v))
        elif isinstance(v, list) and depth < 2:
            for i, x in enumerate(v[:6]):
                visit(f"{where}[{i}]", x, depth + 1)

    for i, v in enumerate(w.stack):
        visit(f"stack[{i}]", v)
    for name in sorted(k for k in w.ns if k.startswith("VAR_")):
        if not isinstance(w.ns[name], types.FunctionType):
            visit(name, w.ns[name])
    visit("register", w.ctx.register)
    visit("global_array", w.ctx.global_array)
    return out


class C12(core.Check):
    id = "C12"
    title = "Interpreter context is balanced after every construct"
    tiers = {
        "quick": dict(runs=16_000, batch=200, wall=80),
        "thorough": dict(runs=400_000, batch=500, wall=840),
    }
    per_run_timeout = 60
    components_real = ["vyxal/lexer.py", "vyxal/parse.py", "vyxal/transpile.py (every template)", "vyxal/elements.py",
                       "vyxal/helpers.py", "vyxal/LazyList.py (output, __next__)", "vyxal/context.py",
                       "vyxal/main.py execute_vyxal (driver B)"]
    components_stub = ["stdin (always EOF)", "secrets.token_hex (counter)", "random (seeded)", "datetime (simulated)"]
    fault_kinds = ["close_lazy (abandon a half-consumed lazy value)", "force_lazy (deferred lambda bodies run at a "
                   "scheduler-chosen point)", "element_failure (a seeded element function raises a seeded exception at its k-th call)"]
    assumptions = [
        "a run in which a statement raises, exits or exceeds the step budget did not finish normally and is discarded",
        "driver B's expected depths are those execute_vyxal itself establishes before exec: (1, 1, 2, 0)",
    ]
    rule = ("one run = one generated program (core grammar: literals, total elements, variables, if/for/while, "
            "lambda/map/filter/sort, named functions, list literals, the eleven modifiers, X/x at start/middle/end/inside-if "
            "of every enclosing construct, printing of eager and lazy values; nesting <= 4) plus a seeded schedule of "
            "force/close events between top-level structures. distinct = distinct (program text, schedule); "
            "non-trivial = the program finished normally (not discarded).")

    def setup(self):
        self.m = world.install_seams()
        world.CLOCK.install()
        FAULTS.install(self.m)

    # ------------------------------------------------------------------ generation
    def gen(self, seed, run, tier):
        rw = sub_rng(seed, self.id, run, "workload")
        rs = sub_rng(seed, self.id, run, "schedule")
        cfg = dict(
            max_depth=rw.choice([1, 2, 3, 4, 4]),
            p_exit=rw.choice([0.0, 0.3, 0.5, 0.8]),
            p_x_over_X=rw.choice([0.0, 0.3, 0.6]),
            p_print=rw.choice([0.0, 0.06, 0.15]),
            weights=[rw.choice([0, 1, 3, 6]) for _ in range(12)],
        )
        if sum(cfg["weights"]) == 0:
            cfg["weights"][0] = 1
        nodes = progs.gen_program(rw, cfg)
        n_inputs = rw.choice([0, 0, 1, 2])
        inputs = [rw.randint(1, 5) for _ in range(n_inputs)]
        driver = "main" if rw.random() < 0.25 else "world"
        rr = sub_rng(seed, self.id, run, "repl")
        repl = None
        if rr.random() < 0.07:
            # a REPL session: (optionally a line that fails inside a structure,) the program, a probe line; every line that
            # finishes normally must be balanced and see the top-level context, whatever happened to earlier lines
            driver = "repl"
            repl = dict(fail=rr.choice([None, "3 ( 1 0 % )", "5 λ 1 0 % ; †", "@q:1| 1 0 % ; 5 @q;", "2 ( 3 ( 1 0 % ) )",
                                        "1 { 1 0 % }", "3 ƛ 1 0 % ; ,"]),
                        probe=rr.choice(["n", "n ,", "2 ( n , )", "3 λ n ; †", "?"]))
        sched = []
        if driver == "world" and rs.random() < 0.7:
            for _ in range(rs.randint(1, 5)):
                sched.append([rs.randint(0, 12), rs.choice(["force", "force", "force", "close"]), rs.randint(0, 7),
                              rs.randint(1, 4)])
            sched.sort(key=lambda e: e[0])
        case = dict(nodes=nodes, inputs=inputs, driver=driver, sched=sched, final_output=rw.random() < 0.8)
        if repl:
            case["repl"] = repl
            case["sched"] = []
        if rr.random() < 0.14:
            # an EARLIER execution in the same process that ends inside a structure (exit, error): the next program gets a
            # new Context and must start from -- and return to -- the initial depth
            case["prelude"] = rr.choice(["5 ( n 3 = [ Q ] )", "3 λ Q ; †", "2 ( 1 0 % )", "4 λ 1 0 % ; †", "@q:1| Q ; 5 @q;",
                                         "3 ƛ Q ; ,", "2 ( 3 ( Q ) )", "1 { Q }",
                                         # ... or that finishes normally after an early exit written in an if-branch under each
                                         # kind of construct (whatever the parser / transpiler remembers of it must not leak)
                                         "3 λ 1 [ X ] 2 ; †", "3 λ 0 [ 5 | X ] n ; †", "2 ( n 1 = [ X ] )", "2 ( 1 [ x ] )",
                                         "⟨1|2⟩ ƛ 1 [ X ] ; ,", "@w:1| 1 [ X ] ; 2 @w;", "1 →ka { ←ka | 0 →ka 1 [ X ] }",
                                         "3 λ 1 [ X ] 2 ; † 2 ( 1 [ X ] )"])
        elif rr.random() < 0.15:
            # ... or ANOTHER generated program of the same grammar (tables kept by the parser / transpiler across programs
            # -- memoised branches, cached lowerings -- show when two programs share pieces of text)
            case["prelude"] = progs.render_body(progs.gen_program(sub_rng(seed, self.id, run, "prelude"), cfg))
        rf = sub_rng(seed, self.id, run, "faults")
        if rf.random() < 0.3:
            # element failure at the k-th call of a seeded element function: the program either aborts (not judged) or
            # something swallows the error -- then it "finishes normally" and must be balanced
            case["fault"] = dict(target=("*" if rf.random() < 0.75 else rf.choice(TARGETS)), at=rf.choice([1, 1, 2, 2, 3, 4, 5, 6, 8]),
                                 exc=rf.choice(["StopIteration", "StopIteration", "TypeError", "TypeError", "ValueError", "IndexError",
                                                "ZeroDivisionError", "RuntimeError", "AttributeError", "KeyError"]))
        return case

    # ------------------------------------------------------------------ execution
    def run(self, case):
        try:
            if case.get("driver") == "main":
                out = self.run_main(case)
            elif case.get("driver") == "repl":
                out = self.run_repl(case)
            else:
                out = self.run_world(case)
        finally:
            fired = FAULTS.fired
            FAULTS.disarm()
        if fired:
            out.setdefault("faults", {})
            out["faults"]["element_failure"] = out["faults"].get("element_failure", 0) + fired
        return out

    def hist(self, case, text):
        return core.digest([text, case.get("sched"), case.get("driver"), case.get("inputs"), case.get("repl"), case.get("prelude")])

    def self_contained(self, case):
        return bool(case.get("prelude"))

    def run_prelude(self, case, log):
        """an earlier execute_vyxal in this process (its own Context); how it ends does not matter"""
        pre = case.get("prelude")
        if not pre:
            return
        world.World(inputs=[])  # resets the seams
        main = self.m["main"]
        old_out = sys.stdout
        sys.stdout = world.RecordingStdout()
        world.CLOCK.start(budget=STEP_BUDGET, count_string=True)
        outcome = "ok"
        try:
            with world.rec_limit(3000):
                main.execute_vyxal(pre, "eD", [])
        except SystemExit:
            outcome = "exit"
        except (world.StepBudgetExceeded, world.ValueTooBig):
            outcome = "budget"
        except Exception as e:
            outcome = "raised:" + type(e).__name__
        finally:
            world.CLOCK.stop()
            sys.stdout = old_out
        log.append(dict(prelude=pre, outcome=outcome))

    def fresh_context_violation(self, w, case, text, log):
        d = w.depths()
        if d == (1, 1, 2, 0) and w.ctx.context_values[-1] == 0 and type(w.ctx.context_values[-1]) is int:
            return None
        delta = tuple(a - b for a, b in zip(d, (1, 1, 2, 0)))
        which = "".join(("+" if x > 0 else "-") + nm for x, nm in zip(delta, ("cv", "in", "st", "fs")) if x) or "top-context"
        sig = f"depth:{which}:fresh-context:{'after-prelude' if case.get('prelude') else 'first'}"
        log.append(dict(violation=sig, depths=list(d)))
        return dict(verdict=VIOLATION, sig=sig, log=log, steps=0, hist=self.hist(case, text),
                    detail=f"a NEW Context (prelude={case.get('prelude')!r}) starts at depths {d} with context_values "
                           f"{w.ctx.context_values!r}: expected (1, 1, 2, 0) and [0]")

    def run_world(self, case):
        text = progs.render_body(case["nodes"])
        log = []
        self.run_prelude(case, log)
        w = world.World(inputs=case["inputs"])
        v_ = self.fresh_context_violation(w, case, text, log)
        if v_:
            return v_
        w.ctx.dictionary_compression = False  # raw strings: code handed to Ė must not be dictionary-decompressed
        log, cov, faults = log + [dict(program=text)], set(), {}
        try:
            structs = w.parse(text)
        except Exception as e:
            return dict(verdict=DISCARD, sig="parse:" + type(e).__name__, log=log, steps=0, hist=None)
        base = w.depths()
        top = w.ctx.context_values[-1]
        # deep (but terminating) recursion costs about 130 steps per level: such programs get a larger step budget
        budget_total = 140_000 if ("300 λ" in text or "450 λ" in text) else STEP_BUDGET
        sched = list(case.get("sched") or [])
        exits = progs.exits_of(case["nodes"])
        for e in exits:
            cov.add("exit:" + e)
        steps = 0
        printed_lazy = [False]
        swallowed = [0]
        swallowed_by = [None]
        via = [None]
        fault = case.get("fault")
        if fault:
            FAULTS.arm(fault["target"], fault["at"], fault["exc"])
        else:
            FAULTS.disarm()

        def check(where, what):
            d = w.depths()
            same_top = w.ctx.context_values and (w.ctx.context_values[-1] is top or w.ctx.context_values[-1] == top
                                                 and type(w.ctx.context_values[-1]) is type(top))
            if (d != base or not same_top) and swallowed[0] and swallowed_by[0] == "outside-vyxal":
                # the exception left vyxal code altogether and was caught by the harness (e.g. the StopIteration that ends
                # a scheduler FORCE): the program did not finish normally
                return dict(verdict=DISCARD, sig="raised-into-harness", log=log, steps=steps, faults=faults, hist=None)
            if d != base or not same_top:
                delta = tuple(a - b for a, b in zip(d, base))
                names = ("cv", "in", "st", "fs")
                which = "".join(("+" if x > 0 else "-") + nm for x, nm in zip(delta, names) if x)
                if not which:
                    which = "top-context"
                if swallowed[0]:
                    # an exception left a lambda / function body and was then swallowed (e.g. by list()'s
                    # length-hint protocol): a different mechanism from a template that forgets its pops
                    sig = f"depth:{which}:swallowed-exception:by={swallowed_by[0] or 'C-level'}"
                    if swallowed_by[0]:
                        sig += f":via={via[0] or '-'}"
                else:
                    sig = f"depth:{which}:{where}:{','.join(exits) or '-'}" + (":printed-lazy" if printed_lazy[0] else "")
                log.append(dict(violation=sig, depths=list(d), base=list(base)))
                return dict(verdict=VIOLATION, sig=sig, detail=f"program={text!r} after {what}: depths {d} != {base}",
                            log=log, steps=steps, cov=sorted(cov), faults=faults, hist=self.hist(case, text))
            return None

        def guarded(fn):
            nonlocal steps
            world.CLOCK.start(budget=budget_total - steps)
            try:
                with world.rec_limit(3000):
                    fn()
                return None
            except world.StepBudgetExceeded:
                return "budget"
            except world.ValueTooBig:
                return "too-big"
            except SystemExit:
                return "exit"
            except RecursionError:
                return "raised:RecursionError"
            except Exception as e:
                return "raised:" + type(e).__name__
            finally:
                steps += world.CLOCK.stop()
                swallowed[0] += world.CLOCK.unwinds
                if world.CLOCK.unwinds and swallowed_by[0] is None:
                    swallowed_by[0] = world.CLOCK.swallowed_by
                    via[0] = world.CLOCK.via_last

        def do_sched(upto):
            while sched and sched[0][0] <= upto:
                _, kind, slot, k = sched.pop(0)
                lz = live_lazies(w)
                if not lz:
                    log.append(dict(ev=kind, skipped="no live lazy value"))
                    continue
                where, h = lz[slot % len(lz)]
                if kind == "force":
                    def f():
                        for _ in range(k):
                            try:
                                w.call(next, h)
                            except StopIteration:
                                break
                    r = guarded(f)
                    faults["force_lazy"] = faults.get("force_lazy", 0) + 1
                else:
                    def f():
                        raw = getattr(h, "raw_object", None)
                        if hasattr(raw, "close"):
                            raw.close()
                    r = guarded(f)
                    faults["close_lazy"] = faults.get("close_lazy", 0) + 1
                log.append(dict(ev=kind, where=where, k=k, outcome=r or "ok", depths=list(w.depths())))
                if r is not None:
                    return dict(verdict=DISCARD, sig=r, log=log, steps=steps, faults=faults, hist=None)
                v = check("sched-" + kind, f"{kind} {where} k={k}")
                if v:
                    return v
            return None

        for i, st in enumerate(structs):
            try:
                code = w.compile_stmt(st)
            except Exception as e:
                return dict(verdict=DISCARD, sig="transpile:" + type(e).__name__, log=log, steps=steps, hist=None)
            had_lazy_top = bool(w.stack) and isinstance(w.stack[-1], w.LazyList)
            r = guarded(lambda: w.run_code(code))
            log.append(dict(stmt=i, kind=type(st).__name__, outcome=r or "ok", depths=list(w.depths())))
            if r is not None:
                return dict(verdict=DISCARD, sig=r, log=log, steps=steps, faults=faults, hist=None)
            if had_lazy_top and w.ctx.printed:
                printed_lazy[0] = True
            v = check("stmt", f"top-level structure {i} ({type(st).__name__})")
            if v:
                return v
            v = do_sched(i)
            if v:
                return v
        v = do_sched(10 ** 9)
        if v:
            return v
        if case.get("final_output", True):
            # what execute_vyxal does after exec: pop and print the top of the stack
            def f():
                pop = w.ns["pop"]
                out = pop(w.stack, 1, w.ctx)
                if isinstance(out, w.LazyList):
                    printed_lazy[0] = True
                    cov.add("implicit-output-lazy")
                w.call(w.ns["vy_print"], out, ctx=w.ctx)
            r = guarded(f)
            log.append(dict(ev="implicit_output", outcome=r or "ok", depths=list(w.depths())))
            if r is not None:
                return dict(verdict=DISCARD, sig=r, log=log, steps=steps, faults=faults, hist=None)
            v = check("implicit-output", "implicit output")
            if v:
                return v
        cov.add("stmts:%d" % min(len(structs), 12))
        return dict(verdict=OK, sig="", log=log, steps=steps, cov=sorted(cov), faults=faults, hist=self.hist(case, text),
                    probes={"exit_in_prog": int(bool(exits)), "printed_lazy": int(printed_lazy[0]),
                            "forced": faults.get("force_lazy", 0)})

    def run_main(self, case):
        text = progs.render_body(case["nodes"])
        m = self.m
        main = m["main"]
        log, cov = [dict(program=text, driver="main")], set()
        self.run_prelude(case, log)
        created = []
        Base = m["context"].Context

        class Capturing(Base):
            def __init__(self):
                super().__init__()
                created.append(self)

        w = world.World(inputs=[])  # resets the seams; its own ctx is unused
        fault = case.get("fault")
        if fault:
            FAULTS.arm(fault["target"], fault["at"], fault["exc"])
        else:
            FAULTS.disarm()
        exits = progs.exits_of(case["nodes"])
        for e in exits:
            cov.add("exit:" + e)
        old_ctx, old_out = main.Context, sys.stdout
        main.Context = Capturing
        sys.stdout = w.out
        world.CLOCK.start(budget=(140_000 if ("300 λ" in text or "450 λ" in text) else STEP_BUDGET), count_string=True)
        outcome = None
        try:
            with world.rec_limit(3000):
                main.execute_vyxal(text, "eD", [str(x) for x in case["inputs"]])
        except world.StepBudgetExceeded:
            outcome = "budget"
        except world.ValueTooBig:
            outcome = "too-big"
        except SystemExit:
            outcome = "exit"
        except RecursionError:
            outcome = "raised:RecursionError"
        except Exception as e:
            outcome = "raised:" + type(e).__name__
        finally:
            steps = world.CLOCK.stop()
            unw = world.CLOCK.unwinds
            unw_by = world.CLOCK.swallowed_by
            unw_via = world.CLOCK.via_last
            sys.stdout = old_out
            main.Context = old_ctx
        log.append(dict(ev="execute_vyxal", outcome=outcome or "ok"))
        if outcome is not None or not created:
            return dict(verdict=DISCARD, sig=outcome or "no-context", log=log, steps=steps, hist=None)
        ctx = created[0]
        d = (len(ctx.context_values), len(ctx.inputs), len(ctx.stacks), len(ctx.function_stack))
        base = (1, 1, 2, 0)
        log.append(dict(depths=list(d)))
        if d != base or ctx.context_values[-1] != 0:
            delta = tuple(a - b for a, b in zip(d, base))
            names = ("cv", "in", "st", "fs")
            which = "".join(("+" if x > 0 else "-") + nm for x, nm in zip(delta, names) if x) or "top-context"
            sig = f"depth:{which}:main:{','.join(exits) or '-'}" if not unw else (f"depth:{which}:swallowed-exception:by={unw_by or 'C-level'}" + (f":via={unw_via or '-'}" if unw_by else ""))
            return dict(verdict=VIOLATION, sig=sig, detail=f"program={text!r} via execute_vyxal: depths {d} != {base}",
                        log=log, steps=steps, cov=sorted(cov), hist=self.hist(case, text))
        return dict(verdict=OK, sig="", log=log, steps=steps, cov=sorted(cov), hist=self.hist(case, text),
                    probes={"exit_in_prog": int(bool(exits)), "driver_main": 1})

    def run_repl(self, case):
        """Driver C: vyxal.main.repl() fed from the stdin seam, one Context for the whole session.  The depth tuple is
        taken where the REPL prints a line's result, i.e. exactly when a line has finished normally."""
        text = progs.render_body(case["nodes"])
        main = self.m["main"]
        rp = case.get("repl") or {}
        lines = ([rp["fail"]] if rp.get("fail") else []) + [text, rp.get("probe") or "n"]
        log, cov = [dict(program=text, driver="repl", lines=lines)], {"driver:repl"}
        self.run_prelude(case, log)
        w = world.World(inputs=[], stdin=lines, stdin_after="EOF")
        fault = case.get("fault")
        if fault:
            FAULTS.arm(fault["target"], fault["at"], fault["exc"])
        else:
            FAULTS.disarm()
        records = []
        real_print = main.vy_print

        def observing_print(*a, **k):
            ctx_ = k.get("ctx")
            if ctx_ is not None and sys._getframe(1).f_code.co_name == "repl":
                records.append(((len(ctx_.context_values), len(ctx_.inputs), len(ctx_.stacks), len(ctx_.function_stack)),
                                world.to_model(ctx_.context_values[-1], self.m["LazyList"].LazyList, 8)
                                if ctx_.context_values else "empty", world.STDIN.reads))
            return real_print(*a, **k)

        old_out = sys.stdout
        main.vy_print = observing_print
        sys.stdout = w.out
        outcome = None
        world.CLOCK.start(budget=STEP_BUDGET, count_string=True)
        try:
            with world.rec_limit(3000):
                main.repl()
        except EOFError:
            outcome = None  # the session's input is over
        except world.StepBudgetExceeded:
            outcome = "budget"
        except world.ValueTooBig:
            outcome = "too-big"
        except SystemExit:
            outcome = "exit"
        except RecursionError:
            outcome = "raised:RecursionError"
        except Exception as e:
            outcome = "raised:" + type(e).__name__  # on the given tree an error ends the session
        finally:
            steps = world.CLOCK.stop()
            unw, unw_by, unw_via = world.CLOCK.unwinds, world.CLOCK.swallowed_by, world.CLOCK.via_last
            sys.stdout = old_out
            main.vy_print = real_print
        log.append(dict(ev="repl", outcome=outcome or "eof", records=[[list(d), t, n] for d, t, n in records]))
        if outcome in ("budget", "too-big") or not records:
            return dict(verdict=DISCARD, sig=outcome or "no-line-finished", log=log, steps=steps, hist=None)
        base = (1, 1, 1, 0)
        for d, top, nread in records:
            if d != base or top != 0:
                delta = tuple(a - b for a, b in zip(d, base))
                which = "".join(("+" if x > 0 else "-") + nm for x, nm in zip(delta, ("cv", "in", "st", "fs")) if x) or "top-context"
                sig = f"depth:{which}:repl:{'after-error' if rp.get('fail') else 'plain'}"
                if unw and outcome is None:
                    # the session ended with the end of its input, yet an exception left a lambda / function body on the
                    # way: something swallowed it (the same attribution as in the other two drivers)
                    sig = f"depth:{which}:swallowed-exception:by={unw_by or 'C-level'}" + (f":via={unw_via or '-'}" if unw_by else "")
                log.append(dict(violation=sig))
                return dict(verdict=VIOLATION, sig=sig, log=log, steps=steps, cov=sorted(cov), hist=self.hist(case, text),
                            detail=f"REPL session {lines!r}: the line read at stdin read {nread} finished normally at depths {d} "
                                   f"(expected {base}) with top context {top!r}")
        cov.add("repl-after-error" if rp.get("fail") else "repl-plain")
        return dict(verdict=OK, sig="", log=log, steps=steps, cov=sorted(cov), hist=self.hist(case, text),
                    probes={"repl_sessions": 1, "repl_lines_finished": len(records)})

    # ------------------------------------------------------------------ shrinking
    def shrink(self, case):
        if case.get("sched"):
            yield dict(case, sched=[])
            for i in range(len(case["sched"])):
                yield dict(case, sched=case["sched"][:i] + case["sched"][i + 1:])
        for nodes in progs.shrink_nodes(case["nodes"]):
            yield dict(case, nodes=nodes)
        if case.get("inputs"):
            yield dict(case, inputs=[])
        if case.get("prelude"):
            yield {k: v for k, v in case.items() if k != "prelude"}
        if (case.get("repl") or {}).get("fail"):
            yield dict(case, repl=dict(case["repl"], fail=None))
        if case.get("final_output", True):
            yield dict(case, final_output=False)
        if case.get("fault"):
            c = dict(case)
            del c["fault"]
            yield c
            if case["fault"]["at"] > 1:
                yield dict(case, fault=dict(case["fault"], at=case["fault"]["at"] - 1))

    def sig_class(self, sig):
        return ":".join(sig.split(":")[:3])

    def same_failure(self, a, b):
        # same leaked stacks at the same kind of point; the exit list may shrink with the program
        return a["sig"].split(":")[:3] == b["sig"].split(":")[:3]


CHECK = C12()
