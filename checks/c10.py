"""C10 — values are immutable: no element changes a value another reference can see.

Why this is a scheduling property here: a Vyxal "copy" is LazyList(itertools.tee(x)[-1]), a
suspended reader over the ORIGINAL object, and many results are suspended generators over their
arguments.  Whether a copy / result denotes the old or the new value depends on when it is forced
relative to something writing to the original, and some results write to their argument later, when
they are forced.  The simulator therefore runs histories

    <value placed under several references>  ( COPY | APPLY element(s) | FORCE | OBSERVE | CLOSE )*

one program statement at a time and keeps every list / lazy-list object it has ever seen at a root
(stack, variables, register, global array, inputs, consumed arguments) in a registry, each attached
to a *value class* whose structural model is known by construction, by an eager (non-perturbing)
snapshot, or learned at the first full observation.  After every event every eager object is
re-snapshotted; lazy objects are compared at their OBSERVE events and at the end of the run.
"""

from __future__ import annotations

import signal
import types

from sim import core, repo, world
from sim.core import OK, VIOLATION, DISCARD, sub_rng

STEP_BUDGET = 60_000
LAZY_MARK = "\x00lazy-ref"  # by-identity marker of a nested lazy list inside a snapshot; cannot be confused with data
OBS_LIMIT = 60

COPY_OPS = [":", "D", "Ḃ", "→a", "←a", "→b", "←b", "£", "¥", "⅛", "¾", "W", "\"", "w", "?", "$", "Ȯ", "^", "_",
            "λ2|_ _ n;†", "λ2|+ n;†", "λ2|$ _ n $ _;†", "λ3|_ _ _ n;†", "λ_ n;†", "λ› n $ _;†", "□"]
# the context value `n` of a lambda denotes the call's arguments whatever the body did to its stack meanwhile:
# text -> (arity, "list" = n is the list of arguments, top first | "arg" = n is the single argument itself)
CTX_OPS = {"λ2|_ _ n;†": (2, "list"), "λ2|+ n;†": (2, "list"), "λ2|$ _ n $ _;†": (2, "list"), "λ3|_ _ _ n;†": (3, "list"),
           "λ_ n;†": (1, "arg"), "λ› n $ _;†": (1, "arg")}
# pairs of scalar -> list applications whose results may share hidden state (caches, memo tables)
# elements that PUSH a value whose denotation is known independently of the implementation (first OBS_LIMIT items)
def _primes(k):
    out, c = [], 2
    while len(out) < k:
        if all(c % p for p in out):
            out.append(c)
        c += 1
    return out


def _fib(k):
    out, a, b = [], 1, 1  # Vyxal's ÞF starts 1, 1, 2, 3, ...
    while len(out) < k:
        out.append(a)
        a, b = b, a + b
    return out


def _fact(k):
    out, f = [1], 1  # Vyxal's Þ! starts with 0! : 1, 1, 2, 6, ...
    for i in range(1, k):
        f *= i
        out.append(f)
    return out[:k]


KNOWN_SOURCES = {"Þp": _primes, "Þ∞": lambda k: list(range(1, k + 1)), "ÞF": _fib, "Þ!": _fact,
                 "5ɾ": lambda k: [1, 2, 3, 4, 5][:k], "4ʀ": lambda k: [0, 1, 2, 3, 4][:k]}
# loops that walk a list and leave early (a for loop over an infinite list is legal as long as it breaks)
LOOP_RECIPES = ["( n 6 > [ X ] )", "( n ⅛ ¾ L 3 > [ X ] )", "( n 2 > [ X ] n _ )", "( X )", "( n 4 = [ X ] )"]
RELATED = [("5 2 τ", "5 N 2 τ"), ("6 K", "6 N K"), ("6 b", "6 N b"), ("3 ɾ", "3 N ɾ"), ("12 Ǐ", "12 N Ǐ"), ("5 2 τ", "5 2 τ"),
           ("⟨⟩ Þr", "⟨⟩ Þr"), ("7 f", "7 N f"), ("3 ʀ", "3 ʀ"), ("4 3 τ", "4 N 3 τ"), ("⟨⟩ Ṫ", "⟨⟩ Ṫ"), ("2 3 r", "3 2 r")]
# Q exits; ¨U is a no-op offline; □ reads stdin lines; ¨… does not compile; ¢ øV øo loop on C-level string
# doubling that neither the step clock nor the size guard at pop() can see
# Ṅ (integer partitions) nests one lazy generator per unit of its argument: thousands of live generators whose
# finalisation alone takes minutes
# ∆P hands strings to sympy's polynomial solver, which can take a minute on a list of short words (seen: 62 s)
EXCLUDED = {"Q", "¨U", "□", "¨…", "¢", "øV", "øo", "Ṅ", "øṖ", "∆P"}
FN_POOL = ["λ›;", "λ2*;", "λ₂;", "λ2|+;", "λ:;", "λd;", "λ1;", "λ2|$;", "λN;", "λh;"]
STRUCT_ELEMS = ["@f:1| 0 9 Ȧ ; @f;", "@g:a| ←a Ṙ ; @g;", "@h:1| : J ; @h;", "( i | ←i 1 J _ )", "ƛ›;", "ƛd;", "'₂;", "'1;", "µN;", "v›", "vd", "ƒ+", "ɖ+", "⁽›M", "⁽₂F", "( n )", "( n ⅛ )",
                "ƛ:Ṙ;", "ƛ0 9 Ȧ;", "ƛ1 J;", "λ2|+; Ḟ", "⁽› ẇ", "‡›d M", "ƛn;", "~₂", "₌Lh", "₍ht",
                "@k:b| ←b L ; @k;", "@m:a| 3ɾ ƛ ←a + ; ; @m;", "2 ~c", "1 ~=", "~J", "0 ~i"]


# well-typed applications of list-transforming elements (the top of the stack is the list): used by the "recipes"
# pool, which alternates them with sharing ops and often applies the same recipe twice (multi-step histories)
RECIPES = ["1N 9 Ṁ", "2N 7 Ṁ", "⟨1|2|3|4⟩ $ λ›; ¨M", "⟨5|6|7⟩ $ İ", "⟨5|6|7|8⟩ $ i", "⟨1|2|3⟩ $ Ẏ", "1N 9 Ȧ", "⟨5|6|7⟩ $ ẇ",
           "⟨5|6|7⟩ $ •", "⟨5|6|7⟩ $ Þṁ" if False else "⟨5|6|7⟩ $ J", "λ2|+; M", "λ2|-; M", "λ2|$; M", "λ3|+ +; M", "λ2|+; M L", "Þr", "ÞR", "Ṫ Þr", "0 9 Ȧ", "1 7 Ȧ", "⟨0|1⟩ 5 Ȧ", "0 λ›; ¨M", "⟨0|1⟩ λd; ¨M", "1 8 Ṁ", "0 9 Ṁ", "9 J", "9 p", "⟨8|9⟩ J", "Ṙ", "s", "U", "Ḣ", "Ṫ",
           "ḣ", "ṫ", "f", "1 Ǔ", "1 ǔ", "2 ẇ", "2 Ẏ", "1 ȯ", "∩", "›", "d", "N", "1 +", "¦", "¯", "K", "ė", "z", ": Z", ": Y",
           "2 ẋ", "÷", "y", "0 i", "1 ⟇", "9 o", "ÞḊ", "Þf", "Ġ", "⇧", "⇩", "ÞU", "ṗ", "2 l", "Ċ", "∑", "G", "g", "h", "t", "L",
           "m", "øṁ", "Þ…" if False else "L", "λ›; M", "λ₂; F", "µN;", "ƒ+", "ɖ+", "v›", "Ḃ", "W", "ÞD" if False else "w"]
# bodies of `ƛ…;` maps built by program text: the items are computed by transpiled code at the moment they are forced, so
# what the list denotes must not depend on the interpreter state (flags set by a modifier, a lambda's scope, a loop's
# context value) it happens to be forced under. Bodies pop without pushing, branch, and read n.
VY_MAP_BODIES = [": 2 % [ 3 * | 2 / ]", ": _ ›", "_ n", ": : _ _", "1 [ d | N ]", "n 2 % [ _ 0 ]", "n + ‹ _ n", "$ _", ": 0 > [ _ 7 ]"]
SHARE_OPS = [":", "D", "→a ←a", "→b ←b", "£ ¥", "⅛ ¾", ": ⅛", ": £", "→a ←a ←a", "$", "Ḃ"]


class WallTimeout(BaseException):
    pass


def _alarm(signum, frame):
    raise WallTimeout()


class Ref:
    __slots__ = ("obj", "cls", "label", "born", "eager_snap", "lazy", "closed")

    def __init__(self, obj, cls, label, born, lazy):
        self.obj, self.cls, self.label, self.born, self.lazy = obj, cls, label, born, lazy
        self.eager_snap = None
        self.closed = False


class C10(core.Check):
    id = "C10"
    title = "Values are immutable: no element changes a value another reference can see"
    tiers = {
        "quick": dict(runs=32_000, batch=200, wall=85, batch_timeout=150),
        "thorough": dict(runs=360_000, batch=500, wall=840, batch_timeout=1800),
    }
    per_run_timeout = 20
    components_real = ["vyxal/elements.py (every key of the element table, minus Q, ¨U, □, ¨…, ¢, øV, øo, Ṅ, øṖ)", "vyxal/helpers.py "
                       "(deep_copy, pop, vectorise paths)", "vyxal/LazyList.py", "vyxal/transpile.py, lexer, parser (every "
                       "event is real program text)"]
    components_stub = ["stdin (EOF)", "random (seeded)", "datetime (simulated)", "secrets (counter)"]
    fault_kinds = ["force k items of a live lazy value between two statements", "observe (fully force) a reference",
                   "close (abandon) a half-consumed lazy result"]
    assumptions = [
        "function values are outside the statement's argument domain (stored_arity set on a shared lambda is not judged)",
        "an APPLY that raises, exits or exceeds a budget ends the run without a verdict",
        "lazy values are compared on their first 60 items per level (infinite results are legal)",
        "values larger than 2^12 / longer than 100 items trip the simulated allocation limit and discard the run",
    ]
    rule = ("one run = a model value (nested lists of ints / rationals / short strings, depth <= 3, length <= 5) built in a "
            "seeded representation (eager / lazy over list, generator or map / partly forced / lazy nested parts), placed "
            "under a seeded set of references (stack, variables, register, global array, input), then <= 8 events: copy "
            "ops, element applications drawn from every key of the element table plus structures with pure lambdas "
            "(sequences of <= 3), and scheduler events force / observe / close on any registered reference. distinct = "
            "distinct (value, representation, placement, event list); non-trivial = run completed with at least one "
            "APPLY executed and every reference compared.")

    def setup(self):
        self.m = world.install_seams()
        world.CLOCK.install()
        world.MAX_BITS = 12
        world.MAX_LEN = 100
        self.LazyList = self.m["LazyList"].LazyList
        table = self.m["elements"].elements
        self.table = {k: v[1] for k, v in table.items() if k not in EXCLUDED}
        self.keys = sorted(self.table)
        signal.signal(signal.SIGALRM, _alarm)

    # ------------------------------------------------------------------------------ generation
    def gen_value(self, r, depth):
        x = r.random()
        if depth >= 3 or x < 0.45:
            y = r.random()
            if y < 0.7:
                return r.randint(0, 9)
            if y < 0.8:
                return ["q", r.randint(1, 9), r.choice([2, 3, 5])]
            return r.choice(["a", "ab", "b1", "12", "a b"])
        return [self.gen_value(r, depth + 1) for _ in range(r.randint(0, 4 if depth else 5))]

    def gen_literal(self, r):
        x = r.random()
        if x < 0.45:
            v = r.randint(-3, 5)
            return str(v) if v >= 0 else f"{-v}N"
        if x < 0.55:
            return "`" + r.choice(["a", "ab", "1", "b a"]) + "`"
        if x < 0.75:
            return "⟨" + "|".join(str(r.randint(0, 5)) for _ in range(r.randint(0, 3))) + "⟩"
        if x < 0.85:
            return r.choice(["3ɾ", "2ʀ", "⟨1|2⟩ ƛ›;"])
        return r.choice(FN_POOL)

    def gen(self, seed, run, tier):
        rw = sub_rng(seed, self.id, run, "workload")
        rs = sub_rng(seed, self.id, run, "schedule")
        shape = rw.choice(["mixed", "mixed", "flat", "matrix", "ragged", "strings", "pairs", "positions"])
        if shape == "mixed":
            val = [self.gen_value(rw, 1) for _ in range(rw.randint(1, 5))]
        elif shape == "flat":
            lo_ = rw.choice([0, 0, -3])  # sometimes with negative items (positions counted from the end)
            val = [rw.randint(lo_, 9) for _ in range(rw.randint(0, 6))]  # the empty list is a value too
        elif shape == "matrix":
            c = rw.randint(1, 4)
            val = [[rw.randint(0, 9) for _ in range(c)] for _ in range(rw.randint(1, 4))]
        elif shape == "ragged":
            val = [[rw.randint(0, 9) for _ in range(rw.randint(0, 4))] for _ in range(rw.randint(2, 5))]
        elif shape == "positions":
            # a list that is plausible as a list of POSITIONS / indices for another list, some counted from the end
            val = [rw.randint(-3, 3) for _ in range(rw.randint(1, 4))]
        elif shape == "strings":
            val = [rw.choice(["a", "ab", "b1", "12", "a b", "ba"]) for _ in range(rw.randint(1, 5))]
        else:
            val = [[rw.randint(0, 9), rw.randint(0, 9)] for _ in range(rw.randint(1, 4))]
        rep = rw.choice(["eager", "eager", "lazy_list", "lazy_gen", "lazy_map", "part"])
        nested_lazy = rw.random() < 0.25
        rv = sub_rng(seed, self.id, run, "vymap")
        vy_body = None
        if rv.random() < 0.12:
            rep, vy_body, nested_lazy = "vy_map", rv.choice(VY_MAP_BODIES), False
        place = sorted(set(rw.sample(["stack", "stack2", "a", "b", "reg", "ga", "input"], rw.randint(1, 3)) + ["stack"]))
        # swarm: element pool for this run
        pool_kind = rw.choice(["all", "all", "subset", "struct", "mutators", "recipes", "recipes"])
        if pool_kind == "subset":
            pool = rw.sample(self.keys, 12)
        elif pool_kind == "mutators":
            pool = ["Ȧ", "Ḟ", "¨M", "Ṁ", "J", "p", "Ṙ", "s", "Ǔ", "ǔ", "ẇ", "i", "ḣ", "ṫ", "Ḣ", "Ṫ", "y", "÷", "f", "U", "Ẏ",
                    "ȯ", "∩", "Þf", "Y", "Z", "ė", "¦", "¯", "K", "ṗ", "Ṗ", "ẋ", "ø↲", "Þṁ", "•", "ÞZ", "Ŀ", "V", "¢", "o"]
            pool = [p for p in pool if p in self.table]
        else:
            pool = None
        events = []
        if pool_kind == "recipes":
            # share, transform one reference, share again, transform again (often with the same recipe), observe
            fav = rs.choice(RECIPES)
            if shape == "positions" and rs.random() < 0.6:
                fav = rs.choice(["⟨1|2|3|4⟩ $ λ›; ¨M", "⟨5|6|7⟩ $ İ", "⟨5|6|7|8⟩ $ i", "⟨5|6|7|8⟩ $ λd; ¨M", "⟨5|6|7|8⟩ $ 9 Ȧ"])
            pair = rs.choice(RELATED) if rs.random() < 0.3 else None
            if rs.random() < 0.3:
                # transform, share the RESULT, transform one reference to the result again with the same recipe
                events.append(["apply", [fav]])
                for op in rs.choice(SHARE_OPS).split(" "):
                    events.append(["copy", op])
                events.append(["apply", [fav]])
            if rs.random() < 0.25:
                # a list whose items are known by definition (primes, naturals, ...), shared, walked by a loop that
                # leaves early, then read through the other reference
                events.append(["source", rs.choice(sorted(KNOWN_SOURCES))])
                events.append(["copy", rs.choice([":", "→a", "£", "⅛", ":"])])
                if events[-1][1] != ":":
                    events.append(["copy", {"→a": "←a", "£": "¥", "⅛": "¾"}[events[-1][1]]])
                events.append(["apply", [rs.choice(LOOP_RECIPES)]])
            for _ in range(rs.randint(2, 6)):
                x = rs.random()
                if pair is not None and x < 0.6:
                    # a scalar -> list application, keep the result somewhere, then the related application
                    events.append(["apply", [pair[0]]])
                    events.append(["copy", rs.choice(["→a", "£", "⅛", ":", "w"])])
                    events.append(["apply", [pair[1]]])
                    continue
                if x < 0.35:
                    for op in rs.choice(SHARE_OPS).split(" "):  # atomic copy ops keep their known semantics
                        events.append(["copy", op])
                elif x < 0.75:
                    events.append(["apply", [fav if rs.random() < 0.5 else rs.choice(RECIPES)]])
                elif x < 0.85:
                    events.append(["force", rs.randint(0, 30), rs.randint(1, 4)])
                else:
                    events.append(["observe", rs.randint(0, 30)])
        for _ in range(rs.randint(2, 8) if pool_kind != "recipes" else 0):
            x = rs.random()
            if x < 0.25:
                events.append(["copy", rs.choice(COPY_OPS)])
            elif x < 0.65:
                seq = []
                for _ in range(rs.choice([1, 1, 1, 2, 3])):
                    if pool_kind == "struct" or rs.random() < 0.12:
                        seq.append(rs.choice(STRUCT_ELEMS))
                        continue
                    e = rs.choice(pool or self.keys)
                    ar = self.table[e]
                    if ar == 2 and rv.random() < (0.3 if vy_body else 0.06):
                        e = "~" + e  # the dyad applied WITHOUT popping its arguments
                    lits = [self.gen_literal(rs) for _ in range(rs.randint(0, max(0, ar - 1)))]
                    # the value under test is not always the FIRST argument: swap / rotate it into the other positions
                    perm = ""
                    if ar >= 2 and lits and rs.random() < 0.35:
                        perm = "$ " if (ar == 2 or len(lits) < 2 or rs.random() < 0.5) else "∇ "
                    seq.append((" ".join(lits) + " " if lits else "") + perm + e)
                events.append(["apply", seq])
            elif x < 0.80:
                events.append(["force", rs.randint(0, 30), rs.randint(1, 4)])
            elif x < 0.95:
                events.append(["observe", rs.randint(0, 30)])
            else:
                events.append(["close", rs.randint(0, 30)])
        if pool_kind != "recipes" and rv.random() < 0.7:
            # stratified over the element table: run i starts by applying element i mod |table| directly to the value under
            # test (with generated literals for its other arguments), so that every element meets every shape and
            # representation many times per tier instead of when the dice happen to pick it
            e = self.keys[run % len(self.keys)]
            ar = self.table[e]
            lits = [self.gen_literal(rv) for _ in range(max(0, ar - 1))]
            perm = ""
            if ar >= 2 and lits and rv.random() < 0.3:
                perm = "$ " if (ar == 2 or rv.random() < 0.5) else "∇ "
            events.insert(0, ["apply", [(" ".join(lits) + " " if lits else "") + perm + e]])
        # interpreter settings that change how elements treat their arguments (command-line flags r, R, M)
        ctxflags = rw.choice([[], [], [], [], ["r"], ["R"], ["M"], ["r", "R"]])
        case = dict(value=val, repr=rep, nested_lazy=nested_lazy, place=place, events=events,
                    final_order=rs.randint(0, 10 ** 6), ctxflags=ctxflags)
        ri = sub_rng(seed, self.id, run, "stdin")
        if ri.random() < 0.12:
            # lines waiting on standard input (read by `?` and by implicit reads when no inputs were given): the list of
            # all inputs (`□`) that a reference holds must not change when more input is read
            case["stdin"] = [ri.choice(["5", "7", "12", "⟨1|2⟩", "`ab`", "0"]) for _ in range(ri.randint(1, 4))]
            if "input" in place and ri.random() < 0.7:
                case["place"] = [p_ for p_ in place if p_ != "input"]
            for _ in range(ri.randint(1, 3)):
                ops = ri.choice([["□"], ["□", "£"], ["□", "→a"], ["?"], ["?", "_"], ["□", "?"], ["+"], ["?", "?"]])
                at = ri.randint(0, len(events))
                events[at:at] = [["copy", o] if o != "+" else ["apply", ["+"]] for o in ops]
        if vy_body:
            case["vy_body"] = vy_body
        return case

    # ------------------------------------------------------------------------------ building
    def build(self, v, top, rep, nested_lazy, pre=1):
        import sympy

        LL = self.LazyList
        if isinstance(v, list):
            if v and v[0] == "q" and len(v) == 3 and isinstance(v[1], int):
                return sympy.Rational(v[1], v[2])
            items = [self.build(x, False, rep, nested_lazy) for x in v]
            if top:
                if rep == "eager":
                    return items
                if rep == "lazy_list":
                    return LL(items)
                if rep == "lazy_gen":
                    return LL(x for x in items)
                if rep == "lazy_map":
                    return LL(map(lambda x: x, items))
                if rep == "part":
                    L = LL(iter(items))
                    for _ in range(pre):
                        try:
                            next(L)
                        except StopIteration:
                            break
                    return L
            if nested_lazy:
                return LL(iter(items))
            return items
        return v

    # ------------------------------------------------------------------------------ execution
    def run(self, case):
        LL = self.LazyList
        w = world.World(inputs=[], stdin=case.get("stdin"))
        ctx, ns = w.ctx, w.ns
        for f_ in case.get("ctxflags", []):
            if f_ == "r":
                ctx.reverse_flag = True
            elif f_ == "R":
                ctx.number_as_range = True
            elif f_ == "M":
                ctx.range_start = 0
        log, cov, faults = [], set(), {}
        if case["repr"] == "vy_map":
            # the value under test is an UNFORCED map made by program text; what it denotes is what the same text gives
            # when it is forced at once in a fresh interpreter with the same settings
            text_ = "ƛ " + case.get("vy_body", ": _") + " ;"

            def make(wx):
                for f_ in case.get("ctxflags", []):
                    if f_ == "r":
                        wx.ctx.reverse_flag = True
                    elif f_ == "R":
                        wx.ctx.number_as_range = True
                    elif f_ == "M":
                        wx.ctx.range_start = 0
                wx.stack.append(self.build(case["value"], True, "eager", False))
                wx.run_code(wx.compile_program(text_))
                return wx.stack.pop()
            try:
                world.CLOCK.start(budget=STEP_BUDGET)
                try:
                    with world.rec_limit():
                        model_V = world.to_model(make(world.World(inputs=[])), LL, OBS_LIMIT)
                        V = make(w)
                finally:
                    world.CLOCK.stop()
                    world.STDIN.reset(case.get("stdin"))  # creating the twin interpreter reset the (global) stdin seam
            except (world.StepBudgetExceeded, world.ValueTooBig):
                return dict(verdict=DISCARD, sig="vy-map-build", log=log, steps=0, faults=faults, hist=None)
            except Exception as e:
                return dict(verdict=DISCARD, sig="vy-map-build:" + type(e).__name__, log=log, steps=0, faults=faults, hist=None)
            if not isinstance(V, LL) or self.foreign(model_V):
                return dict(verdict=DISCARD, sig="vy-map-build:not-lazy", log=log, steps=0, faults=faults, hist=None)
        else:
            V = self.build(case["value"], True, case["repr"], case.get("nested_lazy", False))
            model_V = self.norm(case["value"])
        refs, by_id, classes = [], {}, {}
        steps = 0
        nclass = [0]
        tm = lambda v: world.to_model(v, LL, OBS_LIMIT)  # noqa
        applied = [0]

        def new_class(model=None):
            nclass[0] += 1
            classes[nclass[0]] = model
            return nclass[0]

        def snap(v, depth=0):
            """non-perturbing snapshot: nested lazies are rendered by identity"""
            if depth > 12:
                return ["deep"]  # a list that (now) contains itself, or absurd nesting
            if isinstance(v, LL):
                r = by_id.get(id(v))
                return [LAZY_MARK, refs.index(r) if r is not None else -1]
            if isinstance(v, list):
                return [snap(x, depth + 1) for x in v]
            if isinstance(v, types.FunctionType):
                return ["fn"]
            return world.to_model(v, LL, OBS_LIMIT)

        def register(obj, label, event_no, cls=None):
            r = by_id.get(id(obj))
            if r is not None:
                return r
            lazy = isinstance(obj, LL)
            r = Ref(obj, cls if cls is not None else new_class(), label, event_no, lazy)
            refs.append(r)
            by_id[id(obj)] = r
            if not lazy:
                for x in obj:  # nested first, so that the snapshot can name them
                    discover(x, label + "[]", event_no, 1)
                r.eager_snap = snap(obj)
                if classes[r.cls] is None and not self.has_lazy(r.eager_snap):
                    classes[r.cls] = r.eager_snap
            return r

        def discover(v, label, event_no, depth=0):
            if isinstance(v, LL):
                register(v, label, event_no)
            elif isinstance(v, list) and depth < 4:
                register(v, label, event_no)

        var_code = {}

        def var_get(name):
            """what `←name` pushes, read by running that very program text on a scratch stack (where the implementation
            keeps its variables is its own business)"""
            if name not in var_code:
                var_code[name] = w.compile_program("←" + name)
            real, tmp = ns["stack"], []
            ns["stack"] = tmp
            try:
                exec(var_code[name], ns)
            except Exception:
                return None
            finally:
                ns["stack"] = real
            return tmp[-1] if tmp else None

        def var_set(name, value):
            real, tmp = ns["stack"], [value]
            ns["stack"] = tmp
            try:
                exec(w.compile_program("→" + name), ns)
            finally:
                ns["stack"] = real

        def roots():
            for i, v in enumerate(w.stack):
                yield f"stack[{i}]", v
            seen_ = set()
            for name in ("a", "b"):
                v = var_get(name)
                if v is not None:
                    seen_.add("VAR_" + name)
                    yield "VAR_" + name, v
            for name in sorted(k for k in ns if k.startswith("VAR_") and k not in seen_):
                yield name, ns[name]
            yield "register", ctx.register
            yield "global_array", ctx.global_array
            for i, v in enumerate(ctx.inputs[0][0]):
                yield f"input[{i}]", v

        def discover_all(event_no):
            for label, v in roots():
                if label == "global_array":
                    for i, x in enumerate(v):
                        discover(x, f"global_array[{i}]", event_no)
                else:
                    discover(v, label, event_no)

        def fail(clause, ref, what, got, want, culprit):
            sig = f"{clause}:{culprit.split(' ')[-1]}:{'lazy' if ref.lazy else 'eager'}"
            log.append(dict(violation=sig, ref=ref.label, got=got, want=want))
            return dict(verdict=VIOLATION, sig=sig,
                        detail=f"value={case['value']} repr={case['repr']} place={case['place']}: {what}: reference {ref.label} "
                               f"(seen at event {ref.born}) now reads {got}, was {want}; last statement: {culprit}",
                        log=log, steps=steps, cov=sorted(cov), faults=faults, hist=core.digest(case))

        def check_eager(culprit):
            for r in refs:
                if not r.lazy:
                    now = snap(r.obj)
                    if now != r.eager_snap and not (self.foreign(now) or self.foreign(r.eager_snap)):
                        return fail("mutated", r, "an eager list changed in place", now, r.eager_snap, culprit)
            return None

        def trunc(v):
            # lazy observations are cut at OBS_LIMIT items per level; cut eager snapshots the same way
            if isinstance(v, list):
                if len(v) == 2 and v[0] == LAZY_MARK and isinstance(v[1], int):
                    return v
                return [trunc(x) for x in v[:OBS_LIMIT]]
            return v

        def resolve(model, depth=0):
            """replace by-identity markers of nested lazy parts with what those parts are known to denote"""
            if isinstance(model, list):
                if len(model) == 2 and model[0] == LAZY_MARK and isinstance(model[1], int):
                    if model[1] < 0 or model[1] >= len(refs) or depth > 6:
                        return None
                    inner = classes.get(refs[model[1]].cls)
                    return None if inner is None else resolve(inner, depth + 1)
                out = []
                for x in model:
                    y = resolve(x, depth + 1)
                    if y is None:
                        return None
                    out.append(y)
                return out
            return model

        def observe(r, culprit):
            try:
                got = trunc(tm(r.obj))
            except (world.StepBudgetExceeded, world.ValueTooBig, WallTimeout):
                raise
            except Exception as e:
                return "raised:" + type(e).__name__
            want = classes[r.cls]
            if want is not None and self.has_lazy(want):
                want = resolve(want)
            if want is not None and (self.foreign(want) or self.foreign(got)):
                want = None  # the value contains something that is not a Vyxal value (a Python range, None, a float, nan)
            if want is None:
                classes[r.cls] = got
                return None
            want = trunc(want)
            if got != want:
                return fail("changed", r, "a reference denotes a different value than before", got, want, culprit)
            return None

        # -- placement: the same object V under several references
        place = case["place"]
        cls_V = new_class(model_V)
        for p in place:
            if p == "stack":
                w.stack.append(V)
            elif p == "stack2":
                w.stack.insert(0, V)
            elif p == "a":
                var_set("a", V)
            elif p == "b":
                var_set("b", V)
            elif p == "reg":
                ctx.register = V
            elif p == "ga":
                ctx.global_array.append(V)
            elif p == "input":
                ctx.inputs[0][0].append(V)
        for nm_ in ("a", "b"):
            if nm_ not in place:
                var_set(nm_, 0)
        if isinstance(V, (list, LL)):
            rV = register(V, "V", -1, cls_V)
            if not rV.lazy:
                # eager: the snapshot must agree with the model it was built from
                classes[cls_V] = rV.eager_snap if not self.has_lazy(rV.eager_snap) else model_V
        discover_all(-1)
        log.append(dict(value=case["value"], repr=case["repr"], place=place))
        last_stmt = "-"

        def guarded(fn):
            nonlocal steps
            try:
                world.CLOCK.start(budget=max(1000, STEP_BUDGET - steps))
                signal.setitimer(signal.ITIMER_REAL, 2.0)
                try:
                    with world.rec_limit():
                        return fn(), None
                except world.StepBudgetExceeded:
                    return None, "budget"
                except world.ValueTooBig:
                    return None, "too-big"
                except SystemExit:
                    return None, "exit"
                except RecursionError:
                    return None, "raised:RecursionError"
                except Exception as e:
                    return None, "raised:" + type(e).__name__
                finally:
                    signal.setitimer(signal.ITIMER_REAL, 0)
                    steps += world.CLOCK.stop()
            except WallTimeout:  # may fire anywhere above, including inside the handlers and the finally block
                signal.setitimer(signal.ITIMER_REAL, 0)
                world.CLOCK.stop()
                return None, "wall-timeout"

        def discard(reason):
            log.append(dict(discard=reason))
            return dict(verdict=DISCARD, sig=reason, log=log, steps=steps, faults=faults, hist=None)

        for eno, ev in enumerate(case["events"]):
            kind = ev[0]
            if kind == "source":
                kind = "copy"
                known_src = KNOWN_SOURCES.get(ev[1])
            else:
                known_src = None
            if kind in ("copy", "apply"):
                text = ev[1] if kind == "copy" else " ".join(ev[1])
                last_stmt = text
                # "its own arguments if the caller kept them": everything on the stack is already registered
                before_top = [x for x in w.stack[-3:]]
                expect_top = None
                if kind == "copy":
                    if text == "¾":
                        expect_top = [snap(x) for x in ctx.global_array]
                    elif text == "□":
                        expect_top = [snap(x) for x in ctx.inputs[0][0]]
                    elif text == "W":
                        expect_top = [snap(x) for x in w.stack]
                    elif text == "\"" and len(w.stack) >= 2 and not ctx.reverse_flag:
                        expect_top = [snap(w.stack[-2]), snap(w.stack[-1])]
                    elif text == "w" and len(w.stack) >= 1:
                        expect_top = [snap(w.stack[-1])]
                    elif text in CTX_OPS and len(w.stack) >= CTX_OPS[text][0] and not ctx.reverse_flag:
                        ar_, kind_ = CTX_OPS[text]
                        if kind_ == "list":
                            expect_top = [snap(x) for x in w.stack[-ar_:][::-1]]
                try:
                    code = w.compile_program(text)
                except Exception as e:
                    return discard("compile:" + type(e).__name__)
                bound_before = {nm_: var_get(nm_) for nm_ in ("a", "b")}
                _, err = guarded(lambda: w.run_code(code))
                log.append(dict(ev=kind, text=text, outcome=err or "ok", stack=len(w.stack)))
                if err:
                    return discard(err)
                if kind == "apply":
                    applied[0] += 1
                    for t in ev[1]:
                        cov.add("el:" + t.split(" ")[-1])
                else:
                    cov.add("copy:" + text)
                # a variable is rebound only by an assignment to it: whatever else ran (a function with a parameter of
                # that name, a loop, an element), `←a` still denotes what it denoted
                for nm_ in ("a", "b"):
                    if "→" + nm_ in text:
                        continue
                    was, now = bound_before[nm_], var_get(nm_)
                    if was is now or isinstance(was, LL) or isinstance(now, LL):
                        continue
                    s_was, s_now = snap(was), snap(now)
                    if s_was != s_now and not (self.foreign(s_was) or self.foreign(s_now)):
                        sig = f"rebound:{text.split(' ')[-1]}:variable"
                        log.append(dict(violation=sig, variable=nm_, got=s_now, want=s_was))
                        return dict(verdict=VIOLATION, sig=sig,
                                    detail=f"value={case['value']} repr={case['repr']} place={case['place']}: variable {nm_} was not "
                                           f"assigned to by {text!r} but now reads {s_now}, was {s_was}",
                                    log=log, steps=steps, cov=sorted(cov), faults=faults, hist=core.digest(case))
                discover_all(eno)
                # copy-op semantics: which new objects denote the same value as which old ones
                if kind == "copy" and (text in (":", "D", "Ḃ") or (CTX_OPS.get(text, (0, ""))[1] == "arg"
                                                                       and not ctx.reverse_flag)) and before_top:
                    src = before_top[-1]
                    rs_ = by_id.get(id(src))
                    if rs_ is not None:
                        k = {":": [-2, -1], "D": [-3, -2, -1], "Ḃ": [-2]}.get(text, [-1])
                        for pos in k:
                            if len(w.stack) >= -pos:
                                o = w.stack[pos]
                                ro = by_id.get(id(o))
                                if ro is not None and ro is not rs_ and ro.born == eno:
                                    old = ro.cls
                                    ro.cls = rs_.cls
                                    classes.pop(old, None)
                if known_src is not None and w.stack and isinstance(w.stack[-1], LL):
                    rt = by_id.get(id(w.stack[-1]))
                    if rt is not None and rt.born == eno:
                        classes[rt.cls] = known_src(OBS_LIMIT)
                if expect_top is not None and self.foreign(expect_top):
                    expect_top = None  # something that is not a Vyxal value (None, a Python object) is on the stack
                if expect_top is not None and w.stack and isinstance(w.stack[-1], (list, LL)):
                    rt = by_id.get(id(w.stack[-1]))
                    if rt is not None and rt.born == eno:
                        if rt.lazy:
                            # what the copy op pushed is lazy: it must still denote what the source held at that moment
                            classes[rt.cls] = expect_top
                        elif rt.eager_snap != expect_top and not self.has_lazy(expect_top) and resolve(expect_top) is not None:
                            return fail("changed", rt, f"{text} pushed something other than the value it copies",
                                        rt.eager_snap, expect_top, text)
                v = check_eager(text)
                if v:
                    return v
            elif kind in ("force", "observe", "close"):
                cands = [r for r in refs if r.lazy] if kind != "observe" else list(refs)
                if not cands:
                    log.append(dict(ev=kind, skipped="no reference"))
                    continue
                r = cands[ev[1] % len(cands)]
                if kind == "force":
                    def f():
                        for _ in range(ev[2]):
                            try:
                                w.call(next, r.obj)
                            except StopIteration:
                                break
                    _, err = guarded(f)
                    faults["force"] = faults.get("force", 0) + 1
                    log.append(dict(ev="force", ref=r.label, k=ev[2], outcome=err or "ok"))
                    if err:
                        return discard(err)
                elif kind == "close":
                    raw = getattr(r.obj, "raw_object", None)
                    known = classes.get(r.cls) is not None
                    shared = sum(1 for x in refs if x.cls == r.cls) > 1
                    def occurrences(v, depth=0):
                        # how many places (roots, items of lists, cached items of lazy lists) hold this very object
                        if depth > 6:
                            return 0
                        k_ = 1 if v is r.obj else 0
                        if isinstance(v, LL):
                            return k_ + sum(occurrences(x, depth + 1) for x in list(v.generated))
                        if isinstance(v, list):
                            return k_ + sum(occurrences(x, depth + 1) for x in v)
                        return k_
                    held = sum(occurrences(v) for _, v in roots())
                    # ... and every list the harness itself still holds a reference to (a value the program has dropped
                    # is still "an argument the caller kept")
                    for other in refs:
                        if other is not r:
                            items_ = other.obj.generated if isinstance(other.obj, LL) else other.obj
                            if any(x is r.obj for x in list(items_)):
                                held += 2
                    # closing the source of a value that something else still holds (an item of another list, a second
                    # root) would be the HARNESS changing a shared value, not a consumer abandoning its own
                    if known or shared or held > 1 or not hasattr(raw, "close") or r.born < 0:
                        log.append(dict(ev="close", skipped="value already known or shared"))
                        continue
                    _, err = guarded(lambda: raw.close())
                    faults["close"] = faults.get("close", 0) + 1
                    log.append(dict(ev="close", ref=r.label, outcome=err or "ok"))
                    if err:
                        return discard(err)
                else:
                    res, err = guarded(lambda: observe(r, last_stmt))
                    faults["observe"] = faults.get("observe", 0) + 1
                    log.append(dict(ev="observe", ref=r.label, outcome=err or ("ok" if res is None else str(res)[:40])))
                    if err:
                        return discard(err)
                    if isinstance(res, dict):
                        return res
                    if isinstance(res, str):
                        return discard(res)
                discover_all(eno)
                v = check_eager(last_stmt)
                if v:
                    return v
        # end of run: every reference is observed, in a seeded order
        order = list(range(len(refs)))
        rot = case.get("final_order", 0) % max(1, len(order))
        order = order[rot:] + order[:rot]
        if case.get("final_order", 0) % 2:
            order.reverse()
        for i in order:
            r = refs[i]
            res, err = guarded(lambda: observe(r, last_stmt))
            if err:
                return discard(err)
            if isinstance(res, dict):
                return res
            if isinstance(res, str):
                return discard(res)
            v = check_eager(last_stmt)
            if v:
                return v
        log.append(dict(refs=len(refs), classes=len(classes)))
        if not applied[0]:
            cov.add("no-apply")
        cov.add(f"repr:{case['repr']}:{'+'.join(place)}")
        return dict(verdict=OK, sig="", log=log, steps=steps, cov=sorted(cov), faults=faults, hist=core.digest(case),
                    probes={"applies": applied[0], "refs": len(refs), "lazy_refs": sum(1 for r in refs if r.lazy)})

    def norm(self, v):
        if isinstance(v, list):
            if v and v[0] == "q" and len(v) == 3 and isinstance(v[1], int):
                from fractions import Fraction
                f = Fraction(v[1], v[2])
                return f.numerator if f.denominator == 1 else ["q", f.numerator, f.denominator]
            return [self.norm(x) for x in v]
        return v

    def foreign(self, s):
        """does this structure contain something outside the statement's value domain (ints, rationals, strings, lists)?"""
        j = core.jdump(s)
        return '"?"' in j or '["f",' in j or '["sym",' in j or '"deep"' in j

    def has_lazy(self, s):
        if isinstance(s, list):
            if len(s) == 2 and s[0] == LAZY_MARK and isinstance(s[1], int):
                return True
            return any(self.has_lazy(x) for x in s)
        return False

    # ------------------------------------------------------------------------------ shrinking
    def shrink(self, case):
        ev = case["events"]
        for i in range(len(ev)):
            yield dict(case, events=ev[:i] + ev[i + 1:])
        for i, e in enumerate(ev):
            if e[0] == "apply" and len(e[1]) > 1:
                for j in range(len(e[1])):
                    yield dict(case, events=ev[:i] + [["apply", e[1][:j] + e[1][j + 1:]]] + ev[i + 1:])
            if e[0] == "apply":
                for j, t in enumerate(e[1]):
                    parts = t.split(" ")
                    if len(parts) > 1 and t not in STRUCT_ELEMS:
                        yield dict(case, events=ev[:i] + [["apply", e[1][:j] + [" ".join(parts[1:])] + e[1][j + 1:]]] + ev[i + 1:])
        if len(case["place"]) > 1:
            for p in case["place"]:
                if p != "stack":
                    yield dict(case, place=[q for q in case["place"] if q != p])
        if case["repr"] != "eager":
            yield dict(case, repr="eager")
        if case.get("nested_lazy"):
            yield dict(case, nested_lazy=False)
        if case.get("ctxflags"):
            yield dict(case, ctxflags=[])
        if case.get("stdin"):
            yield {k: v for k, v in case.items() if k != "stdin"}
            if len(case["stdin"]) > 1:
                yield dict(case, stdin=case["stdin"][:-1])
        val = case["value"]
        for i in range(len(val)):
            if len(val) > 1:
                yield dict(case, value=val[:i] + val[i + 1:])
        for i, x in enumerate(val):
            if x != 1 and x != 0:
                yield dict(case, value=val[:i] + [1] + val[i + 1:])

    def sig_class(self, sig):
        return sig

    def same_failure(self, a, b):
        return a["sig"] == b["sig"]


CHECK = C10()
