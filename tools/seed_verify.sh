#!/bin/bash
# usage: seed_verify.sh <worktree> <N> <dest-name> <property>
# Confirms in the scratch worktree that patchN keeps the 392 tests green, that demoN passes on the pristine tree and
# fails with the patch, then copies patch/demo/notes to /verif/seeded/<dest-name>/ and writes meta.json.
set -u
WT="$1"; N="$2"; NAME="$3"; PROP="$4"
cd "$WT" || exit 2
git checkout -q -- . ; git status --short | grep -v '^?? seed/' | head
timeout 120 /venv/bin/python seed/demo$N.py > /tmp/seed_demo_pristine.$$ 2>&1; P=$?
git apply seed/patch$N.diff || { echo "patch does not apply"; exit 2; }
timeout 1200 /venv/bin/python -m pytest -q -p no:cacheprovider 2>&1 | grep -E "passed|failed|error" | tail -1 > /tmp/seed_tests.$$
timeout 120 /venv/bin/python seed/demo$N.py > /tmp/seed_demo_patched.$$ 2>&1; F=$?
git checkout -q -- .
find . -name __pycache__ -prune -exec rm -rf {} + 2>/dev/null
T=$(cat /tmp/seed_tests.$$)
echo "$NAME: demo pristine exit=$P, tests with patch: $T, demo patched exit=$F"
if [ "$P" = "0" ] && [ "$F" != "0" ] && echo "$T" | grep -q "392 passed" && ! echo "$T" | grep -q failed; then
  D=/verif/seeded/$NAME; mkdir -p $D
  cp seed/patch$N.diff $D/patch.diff; cp seed/demo$N.py $D/demo.py; cp seed/notes$N.md $D/notes.md
  python3 - "$D" "$PROP" "$T" "$P" "$F" "$WT" <<'PY'
import json, sys
d, prop, tests, p, f, wt = sys.argv[1:]
notes = open(d + "/notes.md").read()
meta = dict(property=prop, source="independent sub-agent given only the property text and a scratch worktree",
            needs_to_manifest=notes.strip().splitlines()[:40],
            confirmed=dict(worktree=wt, demo_pristine_exit=int(p), demo_patched_exit=int(f), tests_with_patch=tests,
                           commands=["git apply seed/patchN.diff", "/venv/bin/python -m pytest -q -p no:cacheprovider",
                                     "/venv/bin/python seed/demoN.py", "git checkout -- ."]),
            checks_run=[])
json.dump(meta, open(d + "/meta.json", "w"), ensure_ascii=False, indent=1)
PY
  echo "  kept -> $D"
else
  echo "  NOT kept"
fi
rm -f /tmp/seed_*.$$
