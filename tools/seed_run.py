#!/usr/bin/env python3
"""Run the registered checks against the kept seeded changes.

  tools/seed_run.py [--only name,name] [--tier quick] [--scratch]   (default: apply to /repo itself, undo afterwards)

For each /verif/seeded/<name>/: git -C /repo apply patch.diff; ./check <property> --tier quick (evidence and replay
files redirected to a temp directory so the real ones are untouched); git -C /repo checkout -- . ; the outcome is
appended to seeded/<name>/meta.json under checks_run.  With --scratch the patch is applied to an rsync copy of /repo
instead (VERIF_REPO), which allows several to run at once.
"""
import argparse, json, os, shutil, subprocess, sys, tempfile, time
from concurrent.futures import ThreadPoolExecutor

HERE = os.path.dirname(os.path.dirname(os.path.abspath(__file__)))


def run_one(name, tier, scratch_mode, workers):
    d = os.path.join(HERE, "seeded", name)
    meta = json.load(open(os.path.join(d, "meta.json")))
    prop = meta["property"]
    tmp = tempfile.mkdtemp(prefix="verif-seed-")
    env = dict(os.environ, VERIF_EVIDENCE_DIR=os.path.join(tmp, "ev"), VERIF_REPLAY_DIR=os.path.join(tmp, "rp"),
               VERIF_WORKERS=str(workers))
    repo = "/repo"
    t0 = time.time()
    try:
        if scratch_mode:
            repo = os.path.join(tmp, "repo")
            subprocess.run(["rsync", "-a", "--exclude", ".git", "--exclude", "__pycache__", "/repo/", repo + "/"], check=True)
            subprocess.run(["patch", "-p1", "-s", "-i", os.path.join(d, "patch.diff")], cwd=repo, check=True)
            env["VERIF_REPO"] = repo
        else:
            subprocess.run(["git", "-C", "/repo", "apply", os.path.join(d, "patch.diff")], check=True)
        r = subprocess.run([os.path.join(HERE, "check"), prop, "--tier", tier], capture_output=True, text=True, env=env,
                           timeout=7200)
    finally:
        if not scratch_mode:
            subprocess.run(["git", "-C", "/repo", "checkout", "--", "."], check=True)
    lines = r.stdout.splitlines()
    viol = [l for l in lines if l.startswith("VIOLATION")]
    det = [l for l in lines if "violation signature" in l]
    res = dict(check=f"./check {prop} --tier {tier}", applied_to=("scratch copy" if scratch_mode else "/repo (undone afterwards)"),
               exit=r.returncode, detected=(r.returncode == 1 and bool(viol)), violations=len(viol),
               first=(det[0][:400] if det else ""), secs=round(time.time() - t0, 1),
               at=time.strftime("%Y-%m-%d %H:%M"))
    meta.setdefault("checks_run", [])
    meta["checks_run"] = [c for c in meta["checks_run"] if c.get("check") != res["check"]] + [res]
    json.dump(meta, open(os.path.join(d, "meta.json"), "w"), ensure_ascii=False, indent=1)
    shutil.rmtree(tmp, ignore_errors=True)
    return name, res


def main():
    ap = argparse.ArgumentParser()
    ap.add_argument("--only")
    ap.add_argument("--tier", default="quick")
    ap.add_argument("--scratch", action="store_true")
    ap.add_argument("--jobs", type=int, default=1)
    a = ap.parse_args()
    names = sorted(os.listdir(os.path.join(HERE, "seeded")))
    names = [n for n in names if os.path.exists(os.path.join(HERE, "seeded", n, "meta.json"))]
    if a.only:
        names = [n for n in names if n in a.only.split(",")]
    jobs = a.jobs if a.scratch else 1
    workers = max(2, (os.cpu_count() or 4) // jobs)
    missed = 0
    with ThreadPoolExecutor(max_workers=jobs) as ex:
        for name, res in ex.map(lambda n: run_one(n, a.tier, a.scratch, workers), names):
            print(f"[seeded] {name:12} {'DETECTED' if res['detected'] else 'MISSED  '} exit={res['exit']} {res['secs']}s :: {res['first'][:220]}",
                  flush=True)
            missed += not res["detected"]
    print(f"[seeded] {len(names) - missed}/{len(names)} detected")


if __name__ == "__main__":
    main()
