#!/usr/bin/env python3
"""Regenerates /verif/MANIFEST.json from the table below (so it is always schema-valid)."""
import json, os

HERE = os.path.dirname(os.path.dirname(os.path.abspath(__file__)))

CLAIMED = {
    "C10": dict(
        text="Seeded search over histories <value> <copy ops> <element sequence> with the scheduler deciding when each "
             "lazy copy / lazy result is forced relative to each element application; every untouched reference is "
             "compared with a structural model built before the real value existed; variables are read and written by "
             "running program text and must stay bound to what they denoted unless assigned to; lazy values computed by "
             "transpiled code must denote what a fresh interpreter computes for them. Evidence, not proof.",
        note="Trusts the harness's structural equality (Fraction-exact numbers, list == LazyList) and that the "
             "generated argument domain (ints, rationals, short strings, nested/lazy lists) is the statement's.",
        tech="deterministic simulation: seeded schedule of force/close/observe events interleaved with element "
             "applications, reference model of every held reference, delta-debugged replay file",
        ref="DESIGN.md section 4, C10"),
    "C11": dict(
        text="Seeded search over read histories (explicit ?, implicit pops of arity 1-3, reads inside lambdas / named "
             "functions / deferred lazy maps forced at scheduler-chosen points) against a cursor model, with the stdin "
             "seam faulted (EOF, OSError, blank) when there are no inputs. Evidence, not proof.",
        note="A call's cycle is judged relative to the stack its body sees (top first): the statement gives calls no "
             "starting point or direction. stdin that has lines is recorded, not judged.",
        tech="deterministic simulation: seeded read histories with deferred forcing and stdin fault injection, "
             "integer-cursor reference model, replay file",
        ref="DESIGN.md section 4, C11"),
    "C12": dict(
        text="Seeded search over sessions of generated terminating programs (break/continue at every legal position "
             "class, printing of lazy lists) executed statement by statement with scheduler-placed force/close events on "
             "live lazy values and injected element failures; the four bookkeeping depths and the top-level context value "
             "are asserted after every statement and event. Three drivers: statement-wise, execute_vyxal, a REPL session "
             "on the stdin seam; cases may carry an earlier execution that ended inside a structure. Evidence, not proof.",
        note="Programs that raise, exit or exceed the step budget did not finish normally and are discarded (counted).",
        tech="deterministic simulation: statement-wise execution under a step clock with seeded force/close scheduling "
             "of deferred lambdas, depth-tuple invariant, replay file",
        ref="DESIGN.md section 4, C12"),
    "C13": dict(
        text="Seeded search over interleaved observation histories on one memoising cursor shared by a LazyList, its "
             "iterators and its deep copies, each return value compared with a plain Python list. Evidence, not proof; "
             "the fraction of the statement's small scope reached is reported.",
        note="Undefined observations (index into the empty list, index below -len) are generated but not judged.",
        tech="deterministic simulation: seeded interleaving of concurrent readers of one memoising cursor, "
             "list reference model, delta-debugged replay file",
        ref="DESIGN.md section 4, C13"),
    "C14": dict(
        text="Bounded liveness against an instrumented infinite source: pipelines of 1-3 catalogued transformations, "
             "demanded in seeded patterns (index, first-n, slices, stepping, resumption, two consumers of one memo, stored "
             "copies, abandonment; the source on the stack or arriving as a program input), must return within a pull "
             "budget, a step budget and without blocking, and stay under an affine pull bound. Evidence, not proof.",
        note="Bounds carry slack (x2, +16 per stage) so that reading a few items ahead is never an alarm.",
        tech="deterministic simulation: pull-counting infinite source with pull/step budgets as the clock, seeded demand "
             "schedules, blocked-without-CPU detector, affine-bound oracle, replay file",
        ref="DESIGN.md section 4, C14"),
    "C19": dict(
        text="Seeded search over programs with printing / E / dagger / exec / request elements and canary-carrying "
             "inputs, run through the real execute_vyxal in online mode (and through flask_app's handlers on stubs) with "
             "injected element failures, stdin faults, network faults and kills at seeded steps; host stdout empty, no "
             "canary evaluated, errors in the error record, killed record is a prefix. Evidence, not proof.",
        note="flask / flask_cors / multiprocessing are stubs; a simulated kill raises at a Python line boundary.",
        tech="deterministic simulation with fault injection: stdout/stdin/network/process seams, element-failure and "
             "kill-at-step faults, canary + record-prefix oracle, replay file",
        ref="DESIGN.md section 4, C19"),
}

NA = {
    "C01": "pure function of (program, inputs, flags): no schedule, clock, fault or shared state for a simulator to choose; differential testing, not simulation",
    "C02": "pure function of the program text (compile(transpile(p))): nothing to schedule or fault",
    "C03": "lexer and parser are pure functions of the text",
    "C04": "two pure parses of related texts compared; no history or environment",
    "C05": "one literal, one value; pure",
    "C06": "string -> text -> string through pure lexer / transpiler; no seam involved",
    "C07": "operator on two numbers; pure",
    "C08": "element on freshly generated arguments nothing else holds; pure (the shared-reference case is C10)",
    "C09": "one element on one sufficiently deep stack reads no input and no seam; pure",
    "C15": "codec round trip; pure function of a value",
    "C16": "algebraic laws of list functions; pure",
    "C17": "arithmetic functions against definitions; pure",
    "C18": "syntactic property of transpile(s); pure (its runtime counterpart is C19, which is claimed)",
    "C20": "finite static tables and a 256-entry code page; nothing executes, nothing to schedule",
}


def main():
    built = [c for c in sorted(CLAIMED) if os.path.exists(os.path.join(HERE, "checks", c.lower() + ".py"))]
    checks = []
    for c in built:
        d = CLAIMED[c]
        checks.append(dict(
            property_id=c,
            quick_cmd=f"./check {c} --tier quick",
            thorough_cmd=f"./check {c} --tier thorough",
            evidence_file=f"evidence/{c}.json",
            replay_cmd_template="./check replay {path}",
            engine="sim",
            level_claimed=dict(category="exploration", text=d["text"], design_ref=d["ref"]),
            level_note=d["note"],
            technique=d["tech"],
        ))
    na = [dict(property_id=k, reason=v) for k, v in sorted(NA.items())]
    for c in sorted(CLAIMED):
        if c not in built:
            na.append(dict(property_id=c, reason="applicable and designed (DESIGN.md section 4) but its check is not built yet in this commit"))
    m = dict(
        version=1,
        setup_cmd="./tools/setup.sh",
        hooks=dict(guard="MATHCAT4_VYXAL2_VERIF", enable="no source hooks are needed: every seam is a module global or an argument (DESIGN.md section 7); checks set MATHCAT4_VYXAL2_VERIF=1 anyway",
                   baseline_off_cmd="cd /repo && env -u MATHCAT4_VYXAL2_VERIF /venv/bin/python -m pytest -ra -q -p no:cacheprovider --timeout=900 --continue-on-collection-errors",
                   source_commits=[], add_only=True),
        engines=[dict(name="sim", path="sim/", serves_properties=built,
                      kind_free_text="hand-written deterministic simulator: seeded sub-streams, step clock via sys.monitoring, seams for stdin/stdout/random/secrets/datetime/urllib/multiprocessing, delta-debugging minimiser, fresh-interpreter replay")],
        checks=checks,
        notes="Technique family: deterministic simulation with fault injection. ./check <ID> --tier quick|thorough; exit 0 held, 1 VIOLATION, 2 harness error. Genuine defects found on the given tree are repaired by fix: commits in /repo or listed in known_findings.json.",
        not_applicable=na,
    )
    with open(os.path.join(HERE, "MANIFEST.json"), "w", encoding="utf-8") as f:
        json.dump(m, f, ensure_ascii=False, indent=1)
    print("wrote MANIFEST.json with checks", built)


if __name__ == "__main__":
    main()
