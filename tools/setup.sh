#!/bin/sh
# Nothing is fetched or built: verify that the interpreter and the repository's dependencies are present.
set -e
PY="${VERIF_PYTHON:-/venv/bin/python}"
REPO="${VERIF_REPO:-/repo}"
cd "$REPO"
"$PY" - <<'PYEOF'
import sys
assert sys.version_info >= (3, 12), sys.version
import sympy, num2words
import vyxal.main, vyxal.LazyList
print("setup ok: python", sys.version.split()[0], "sympy", sympy.__version__)
PYEOF
