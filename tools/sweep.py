#!/usr/bin/env python3
"""Soundness sweep: every check, many seeds, on the unchanged tree; every run must exit 0.
usage: tools/sweep.py [--seeds 1,2,3] [--checks C10,C13] [--scale 0.33]
Evidence / replay files are redirected to a temp directory so the committed evidence is not touched."""
import argparse, os, subprocess, sys, tempfile, time
HERE = os.path.dirname(os.path.dirname(os.path.abspath(__file__)))
QUICK = {"C10": 40000, "C11": 30000, "C12": 16000, "C13": 1000000, "C14": 60000, "C19": 5000}
ap = argparse.ArgumentParser()
ap.add_argument("--seeds", default="1,2,3,4,5,6,7,8,9,10")
ap.add_argument("--checks", default="C10,C11,C12,C13,C14,C19")
ap.add_argument("--scale", type=float, default=0.33)
a = ap.parse_args()
tmp = tempfile.mkdtemp(prefix="verif-sweep-")
env = dict(os.environ, VERIF_EVIDENCE_DIR=os.path.join(tmp, "ev"), VERIF_REPLAY_DIR=os.path.join(tmp, "rp"))
bad = 0
for seed in a.seeds.split(","):
    for c in a.checks.split(","):
        t0 = time.time()
        r = subprocess.run([os.path.join(HERE, "check"), c, "--tier", "quick", "--seed", seed, "--runs", str(int(QUICK[c] * a.scale))],
                           capture_output=True, text=True, env=env)
        tail = [l for l in r.stdout.splitlines() if "VIOLATION" in l or "HARNESS" in l or "NOT-REPRO" in l]
        print(f"[sweep] seed={seed} {c} exit={r.returncode} {time.time() - t0:.0f}s {' | '.join(tail)[:300]}", flush=True)
        bad += r.returncode != 0
print(f"[sweep] {'ALL CLEAN' if not bad else str(bad) + ' NON-ZERO EXITS'}")
sys.exit(1 if bad else 0)
