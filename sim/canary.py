"""The canary: user-supplied text that is a valid Python expression / statement with a side effect.
If any route ever compiles or executes it, hit() records where from.  Registered as the importable
module `verif_canary` so that `__import__('verif_canary').hit('k7')` works from any namespace.
Never run offline: offline `E` and `†` evaluate text by design."""

import ast
import sys
import traceback

HITS = []       # (tag, route)
COMPILES = []   # (kind, route, source excerpt)
ACTIVE = [False]
EXEMPT_FUNCS = ("make_expression", "make_equation", "parse_expr", "sympify", "eval_expr", "stringify_expr")


def _route():
    """Name the innermost vyxal function on the Python stack and whether a sympy-parse route is involved."""
    names = []
    f = sys._getframe(2)
    exempt = False
    literal = False
    while f is not None:
        co = f.f_code
        fn = co.co_filename
        if co.co_name in EXEMPT_FUNCS or "/sympy/parsing/" in fn:
            exempt = True
        if co.co_name == "literal_eval" and fn.endswith("/ast.py"):
            literal = True  # ast.literal_eval parses to an AST only (PyCF_ONLY_AST): nothing executable is built
        if "/vyxal/" in fn or ((fn.startswith("<vy") or fn == "<string>") and co.co_name != "<module>"):
            names.append(f"{fn.rsplit('/', 1)[-1]}:{co.co_name}")
        f = f.f_back
    # Text that reaches Python evaluation through one of the statement's three named routes -- the evaluate element and
    # input parsing (both helpers.vy_eval) or the call element (elements.function_call) -- is in scope whatever library
    # finally evaluates it.  Only the sympy-parser string overloads of the ∆ elements (helpers.make_expression /
    # make_equation, not reached through vy_eval) are outside the statement.
    named_route = any(n.endswith((":vy_eval", ":function_call", ":exp2_or_eval", ":execute_vyxal")) for n in names)
    if exempt and named_route:
        exempt = False
    return ("ast-literal:" if literal else "") + ("sympy-parse:" if exempt else "") + (names[0] if names else "?")


def hit(tag="?"):
    HITS.append((str(tag), _route()))
    return 0


def reset():
    del HITS[:]
    del COMPILES[:]


def canary_in_code(source) -> bool:
    """True iff the canary appears as CODE (not merely inside a string constant) in this Python source."""
    if isinstance(source, bytes):
        try:
            source = source.decode("utf-8", "replace")
        except Exception:
            return False
    if not isinstance(source, str) or "verif_canary" not in source:
        return False
    try:
        tree = ast.parse(source)
    except SyntaxError:
        return False
    for node in ast.walk(tree):
        if isinstance(node, ast.Name) and node.id == "verif_canary":
            return True
        if isinstance(node, (ast.Import, ast.ImportFrom)):
            if any("verif_canary" in (a.name or "") for a in node.names) or "verif_canary" in (getattr(node, "module", "") or ""):
                return True
        if isinstance(node, ast.Call) and isinstance(node.func, ast.Name) and node.func.id == "__import__":
            if node.args and isinstance(node.args[0], ast.Constant) and node.args[0].value == "verif_canary":
                return True
    return False


_busy = [False]


def _audit(event, args):
    if not ACTIVE[0] or _busy[0]:
        return
    if event == "compile":
        src = args[0]
        if src is None:
            return
        _busy[0] = True  # ast.parse below compiles too
        try:
            if canary_in_code(src):
                route = _route()
                if not route.startswith("ast-literal:"):
                    COMPILES.append(("compile", route, (src if isinstance(src, str) else repr(src))[:80]))
        finally:
            _busy[0] = False


_installed = [False]


def install():
    if _installed[0]:
        return
    sys.modules["verif_canary"] = sys.modules[__name__]
    sys.addaudithook(_audit)
    _installed[0] = True
