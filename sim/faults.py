"""Element-failure injection shared by the program-driven checks: a seeded element function raises a seeded
exception at its k-th call.  The wrappers keep the original's signature (helpers.takes_ctx inspects it) and are
installed once per process in vyxal.elements and in every module that star-imported the function."""

from __future__ import annotations

import functools
import inspect

TARGETS = ["add", "multiply", "increment", "decrement", "is_even", "halve", "negate", "vy_sum", "length", "head", "tail",
           "subtract", "equals", "less_than", "greater_than", "merge", "reverse", "boolify"]
EXC = {"StopIteration": StopIteration, "TypeError": TypeError, "ValueError": ValueError, "IndexError": IndexError,
       "ZeroDivisionError": ZeroDivisionError, "RuntimeError": RuntimeError, "KeyError": KeyError,
       "AttributeError": AttributeError, "RecursionError": RecursionError}


class ElementFaults:
    def __init__(self):
        self.target = None
        self.at = 0
        self.exc = ValueError
        self.calls = 0
        self.fired = 0
        self.census = {}
        self.installed = False

    def disarm(self):
        self.target, self.calls, self.fired, self.census = None, 0, 0, {}

    def arm(self, target, at, exc):
        self.disarm()
        self.target, self.at, self.exc = target, at, EXC[exc]

    def install(self, m):
        if self.installed:
            return
        el = m["elements"]
        for name in TARGETS:
            orig = getattr(el, name, None)
            if orig is None or getattr(orig, "__verif_fault_wrapped__", False):
                continue
            w = self._make(orig, name)
            setattr(el, name, w)
            for modname in ("main", "transpile"):
                if getattr(m[modname], name, None) is orig:
                    setattr(m[modname], name, w)
        self.installed = True

    def _make(self, orig, name):
        faults = self
        sig = inspect.signature(orig)

        @functools.wraps(orig)
        def wrapper(*a, **k):
            faults.census[name] = faults.census.get(name, 0) + 1
            if faults.target == name or faults.target == "*":
                faults.calls += 1
                if faults.calls == faults.at:
                    faults.fired += 1
                    raise faults.exc(f"injected failure in {name} (call {faults.at})")
            return orig(*a, **k)

        wrapper.__verif_fault_wrapped__ = True
        wrapper.__signature__ = sig  # inspect.getfullargspec (helpers.takes_ctx) honours __signature__
        del wrapper.__wrapped__
        return wrapper


FAULTS = ElementFaults()
