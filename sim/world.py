"""The simulated world a Vyxal program runs in: one Context, one stack, one exec namespace with every
environment seam owned by the simulator, and a step clock.

Seams (all module globals or namespace entries; no source hook in /repo is needed):
  stdin    vyxal.helpers.input / namespace 'input'      -> StdinSeam (lines, EOF, OSError)
  stdout   sys.stdout                                   -> recording stream (per run)
  random   vyxal.elements.random                        -> random.Random(sub-stream)
  secrets  vyxal.transpile.secrets                      -> counter-based token_hex (deterministic lambda names)
  clock    vyxal.elements.datetime                      -> FakeDatetime (simulated time)
  network  vyxal.elements.urllib                        -> FakeUrllib (payload / error)
  steps    sys.monitoring LINE events in vyxal/*.py and transpiled code -> StepClock
"""

from __future__ import annotations

import io
import random
import sys
from fractions import Fraction

from sim import repo
from sim.core import REPO_DIR

# ------------------------------------------------------------------------------------------------
# step clock


class StepBudgetExceeded(BaseException):
    """Deterministic stand-in for 'does not terminate' (BaseException so no `except Exception` hides it)."""


class Killed(BaseException):
    """Simulated kill of the running program at an exact step."""


class StepClock:
    TOOL = 4

    def __init__(self):
        self.mon = sys.monitoring
        self.steps = 0
        self.unwinds = 0
        self.pending_unwind = False
        self.pending_exc = None
        self.swallowed_by = None
        self.via = []
        self.via_last = None
        self.last_unwind = None
        self.budget = None
        self.kill_at = None
        self.on_step = None
        self.on_kill = None
        self.active = False
        self.prefixes = (REPO_DIR.rstrip("/") + "/vyxal/", "<vy")
        self.extra_string = False
        self._known = {}
        self.installed = False

    def install(self):
        if self.installed:
            return
        try:
            self.mon.use_tool_id(self.TOOL, "verif-stepclock")
        except ValueError:
            pass
        self.mon.register_callback(self.TOOL, self.mon.events.LINE, self._line)
        self.mon.register_callback(self.TOOL, self.mon.events.PY_UNWIND, self._unwind)
        self.mon.register_callback(self.TOOL, self.mon.events.EXCEPTION_HANDLED, self._handled)
        self.mon.register_callback(self.TOOL, self.mon.events.RERAISE, self._reraise)
        self.installed = True

    def _handled(self, code, offset, exc):
        # an exception that left a transpiled lambda / function body is caught here: remember by whom
        # entering ANY except clause counts as "handled" for the interpreter, even one that does not match and re-raises:
        # the candidate is withdrawn again by _reraise below
        if exc is self.pending_exc:
            fn = code.co_filename
            self.swallowed_by = code.co_name if (fn.startswith(self.prefixes) or fn == "<string>") else "outside-vyxal"

    def _reraise(self, code, offset, exc):
        if exc is self.pending_exc:
            self.swallowed_by = None

    def _unwind(self, code, offset, exc):
        # a frame of transpiled code (lambda / function / list item body) left by an exception
        fn = code.co_filename
        if (fn.startswith("<vy") or fn == "<string>") and code.co_name != "<module>":
            if not isinstance(exc, (StepBudgetExceeded, Killed)):
                self.unwinds += 1
                self.pending_unwind = True
                if exc is not self.pending_exc:
                    self.via = []
                    self.via_last = None
                self.pending_exc = exc
                self.last_unwind = type(exc).__name__
        elif exc is self.pending_exc and fn.startswith(self.prefixes):
            # vyxal frames the exception passes through on its way out; the LAST one before it is handled is the
            # carrier: the function sitting directly under the C-level iterator (filter / map / sorted / accumulate)
            if len(self.via) < 6:
                self.via.append(code.co_qualname)
            if code.co_qualname not in ("safe_apply", "LazyList.__next__"):
                self.via_last = code.co_qualname

    def _line(self, code, line):
        k = self._known.get(code)
        if k is None:
            fn = code.co_filename
            k = fn.startswith(self.prefixes) or (fn == "<string>")
            self._known[code] = k
        if not k:
            return self.mon.DISABLE
        if code.co_filename == "<string>" and not self.extra_string:
            return None
        self.steps += 1
        s = self.steps
        if self.kill_at is not None and s >= self.kill_at:
            self.kill_at = s + 2000  # raise again only if the program swallows the kill and keeps running
            if self.on_kill is not None:
                # a real SIGKILL runs no finally block: whatever must be read "as of the kill" is frozen here
                self.on_kill()
            raise Killed(s)
        if self.budget is not None and s > self.budget:
            self.budget = s + 2000
            raise StepBudgetExceeded(s)
        return None

    def start(self, budget=None, kill_at=None, count_string=False, on_kill=None):
        self.install()
        self.on_kill = on_kill
        self.steps = 0
        self.unwinds = 0
        self.pending_unwind = False
        self.pending_exc = None
        self.swallowed_by = None
        self.via = []
        self.via_last = None
        self.last_unwind = None
        self.budget = budget
        self.kill_at = kill_at
        self.extra_string = count_string
        self.mon.set_events(self.TOOL, self.mon.events.LINE | self.mon.events.PY_UNWIND | self.mon.events.EXCEPTION_HANDLED
                            | self.mon.events.RERAISE)
        self.active = True

    def stop(self):
        if self.active:
            self.mon.set_events(self.TOOL, 0)
            self.active = False
        return self.steps


CLOCK = StepClock()

# ------------------------------------------------------------------------------------------------
# environment seams


class StdinSeam:
    """Simulated standard input. script: list of lines (str), or the markers 'EOF' / 'OSERR' as dict entries."""

    def __init__(self):
        self.reset()

    def reset(self, script=None, after="EOF"):
        self.script = list(script or [])
        self.after = after  # what happens when the script is exhausted
        self.reads = 0
        self.faults = {}
        self.log = []

    def __call__(self, prompt=""):
        self.reads += 1
        if self.script:
            item = self.script.pop(0)
        else:
            item = {"fault": self.after}
        if isinstance(item, dict):
            kind = item["fault"]
            self.faults[kind] = self.faults.get(kind, 0) + 1
            self.log.append(kind)
            if kind == "EOF":
                raise EOFError("simulated end of input")
            if kind == "OSERR":
                raise OSError(5, "simulated I/O error on stdin")
            if kind == "INTR":
                raise InterruptedError(4, "simulated EINTR")
            raise RuntimeError(kind)
        self.log.append(item)
        return item


class FakeSecrets:
    def __init__(self):
        self.n = 0
        self.collide = False

    def reset(self, collide=False):
        self.n = 0
        self.collide = collide

    def token_hex(self, nbytes=16):
        if not self.collide:
            self.n += 1
        return format(self.n, "x").rjust(nbytes * 2, "0")


class FakeDatetime:
    """Stands in for datetime.datetime inside vyxal.elements: now() reads simulated time."""

    def __init__(self):
        import datetime as _dt

        self._dt = _dt
        self.t = _dt.datetime(2026, 10, 2, 12, 0, 0)
        self.reads = 0

    def reset(self):
        self.t = self._dt.datetime(2026, 10, 2, 12, 0, 0)
        self.reads = 0

    def jump(self, seconds):
        self.t = self.t + self._dt.timedelta(seconds=seconds)

    def now(self):
        self.reads += 1
        return self.t


class _Resp:
    def __init__(self, payload):
        self.payload = payload

    def read(self):
        return self.payload


class FakeUrllib:
    class _Req:
        def __init__(self, outer):
            self.outer = outer

        def urlopen(self, url, *a, **k):
            o = self.outer
            o.calls.append(url)
            if o.mode == "error":
                o.faults["net_error"] = o.faults.get("net_error", 0) + 1
                raise OSError("simulated network error")
            if o.mode == "tainted":
                o.faults["net_tainted"] = o.faults.get("net_tainted", 0) + 1
            return _Resp(o.payload)

    def __init__(self):
        self.request = FakeUrllib._Req(self)
        self.reset()

    def reset(self, mode="ok", payload=b"hello"):
        self.mode = mode
        self.payload = payload
        self.calls = []
        self.faults = {}


class ValueTooBig(Exception):
    """Simulated allocation failure: a value on a stack outgrew the simulator's size limit.  Without it a
    doubling inside a loop (`: *`, `: J`, `: +` on strings) reaches sizes whose single C-level operation
    never returns, which the step clock cannot see.  Runs that hit it are discarded, never judged."""


MAX_BITS = 512
MAX_LEN = 3000


def _too_big(x):
    t = type(x)
    if t is int:
        return x.bit_length() > MAX_BITS
    if t is str or t is list:
        return len(x) > MAX_LEN
    p = getattr(x, "p", None)  # sympy Integer / Rational
    if type(p) is int:
        return p.bit_length() > MAX_BITS or getattr(x, "q", 1).bit_length() > MAX_BITS
    return False


def make_guarded_pop(orig):
    def pop(iterable_object, count, *a, **k):  # transparent apart from the size check on what comes back
        r = orig(iterable_object, count, *a, **k)
        if count == 1:
            if _too_big(r):
                raise ValueTooBig()
        else:
            for x in r:
                if _too_big(x):
                    raise ValueTooBig()
        return r

    pop.__wrapped_by_verif__ = True
    return pop


class rec_limit:
    """Recursion limit relative to the current depth, so RecursionError does not depend on how deep the
    harness happens to be (worker pool vs parent vs fresh replay)."""

    def __init__(self, extra=700):
        self.extra = extra

    def __enter__(self):
        d, f = 0, sys._getframe()
        while f is not None:
            d += 1
            f = f.f_back
        self.old = sys.getrecursionlimit()
        sys.setrecursionlimit(d + self.extra)

    def __exit__(self, *a):
        sys.setrecursionlimit(self.old)


STDIN = StdinSeam()
SECRETS = FakeSecrets()
DATETIME = FakeDatetime()
URLLIB = FakeUrllib()


class RecordingStdout(io.StringIO):
    pass


_installed = False


def install_seams():
    """Install the permanent seam objects into the code under test (idempotent)."""
    global _installed
    m = repo.load()
    if _installed:
        return m
    m["helpers"].input = STDIN
    m["main"].input = STDIN
    m["elements"].input = STDIN
    m["transpile"].secrets = SECRETS
    m["elements"].datetime = DATETIME
    m["elements"].urllib = URLLIB
    m["main"].datetime = DATETIME
    m["main"].urllib = URLLIB
    gp = make_guarded_pop(m["helpers"].pop)
    for name in ("helpers", "elements", "main", "transpile"):
        if getattr(m[name], "pop", None) is not None:
            m[name].pop = gp
    _installed = True
    return m


# ------------------------------------------------------------------------------------------------
# the world


class World:
    def __init__(self, inputs=(), flags="", online=False, random_seed=0, stdin=None, stdin_after="EOF"):
        m = install_seams()
        self.m = m
        self.Context = m["context"].Context
        self.LazyList = m["LazyList"].LazyList
        STDIN.reset(stdin, after=stdin_after)
        SECRETS.reset()
        DATETIME.reset()
        URLLIB.reset()
        self.rand = random.Random(random_seed)
        m["elements"].random = self.rand
        ctx = self.Context()
        stack = []
        ctx.inputs[0][0] = list(inputs)
        ctx.stacks.append(stack)
        ctx.stacks.append(stack)  # execute_vyxal registers the main stack twice
        ctx.online = online
        if online:
            ctx.online_output = {1: "", 2: ""}
        self.ctx, self.stack = ctx, stack
        ns = dict(m["main"].__dict__)
        ns.update(ctx=ctx, stack=stack, input=STDIN, random=self.rand, datetime=DATETIME, urllib=URLLIB)
        self.ns = ns
        self.out = RecordingStdout()
        self.nstmt = 0

    # -- program handling ---------------------------------------------------------------------
    def parse(self, program: str):
        m = self.m
        return m["parse"].parse(m["lexer"].tokenise(program))

    def compile_stmt(self, struct):
        src = self.m["transpile"].transpile_ast([struct], dict_compress=self.ctx.dictionary_compression)
        self.nstmt += 1
        return compile(src, f"<vy:{self.nstmt}>", "exec")

    def compile_program(self, program: str, dict_compress: bool = True):
        src = self.m["transpile"].transpile(program, dict_compress)
        self.nstmt += 1
        return compile(src, f"<vy:{self.nstmt}>", "exec")

    def run_code(self, code):
        """exec under the recording stdout.  The step clock is started/stopped by the caller."""
        old = sys.stdout
        sys.stdout = self.out
        try:
            exec(code, self.ns)
        finally:
            sys.stdout = old
        # the program may rebind `stack` (it never does at top level) -- keep ours
        return None

    def call(self, fn, *a, **k):
        old = sys.stdout
        sys.stdout = self.out
        try:
            return fn(*a, **k)
        finally:
            sys.stdout = old

    def depths(self):
        c = self.ctx
        return (len(c.context_values), len(c.inputs), len(c.stacks), len(c.function_stack))


# ------------------------------------------------------------------------------------------------
# value model helpers


def sym_key(v):
    """Symbolic (irrational / complex) numbers are outside the properties' value domain; they are compared by a
    10-significant-digit numeric key so that `0.00555555555555556*pi` and `pi/180` (the same value before and after
    vyxalify's nsimplify) are not told apart by their printed form."""
    try:
        import sympy

        c = complex(sympy.N(v, 15))
        return "%.10g%+.10gj" % (c.real, c.imag)
    except Exception:
        return "?"


def to_model(v, LazyList, limit=200, depth=0):
    """Canonical, hashable-free structural form of a Vyxal value.  Forces lazy lists (so it is an
    observation and must only be called where the schedule says so)."""
    import sympy
    import types

    if depth > 12:
        return ["deep"]

    if isinstance(v, bool):
        return int(v)
    if isinstance(v, int):
        return v
    if isinstance(v, str):
        return v
    if isinstance(v, Fraction):
        return v.numerator if v.denominator == 1 else ["q", v.numerator, v.denominator]
    if isinstance(v, sympy.Basic):
        if v.is_Integer:
            return int(v)
        if v.is_Rational:
            return ["q", int(v.p), int(v.q)]
        return ["sym", sym_key(v)]
    if isinstance(v, float):
        return ["f", repr(v)]
    if isinstance(v, types.FunctionType):
        return ["fn"]
    if isinstance(v, LazyList):
        out = []
        it = iter(v)
        for x in it:
            out.append(to_model(x, LazyList, limit, depth + 1))
            if len(out) > limit:
                out.append("...")
                break
        return out
    if isinstance(v, (list, tuple)):
        return [to_model(x, LazyList, limit, depth + 1) for x in v]
    return ["?", type(v).__name__, repr(v)[:40]]


def eager_snapshot(v, LazyList):
    """Structural form of a value WITHOUT forcing anything: lazy parts are rendered as the marker
    ['lazy'].  Reading an eager list perturbs nothing."""
    import sympy
    import types

    if isinstance(v, bool):
        return int(v)
    if isinstance(v, (int, str)):
        return v
    if isinstance(v, sympy.Basic):
        if v.is_Integer:
            return int(v)
        if v.is_Rational:
            return ["q", int(v.p), int(v.q)]
        return ["sym", sym_key(v)]
    if isinstance(v, LazyList):
        return ["lazy"]
    if isinstance(v, types.FunctionType):
        return ["fn"]
    if isinstance(v, (list, tuple)):
        return [eager_snapshot(x, LazyList) for x in v]
    return ["?", type(v).__name__]
