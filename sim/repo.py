"""Import the code under test from the working tree (VERIF_REPO, default /repo)."""

import os
import sys

from sim.core import REPO_DIR

_loaded = {}


def load():
    """Import vyxal from REPO_DIR's current working tree and return the modules the simulator uses."""
    if _loaded:
        return _loaded
    if REPO_DIR not in sys.path:
        sys.path.insert(0, REPO_DIR)
    # the guard for hooks in /repo (none are needed so far, see DESIGN.md section 7)
    os.environ.setdefault("MATHCAT4_VYXAL2_VERIF", "1")
    import vyxal  # noqa

    assert os.path.abspath(os.path.dirname(vyxal.__file__)) == os.path.join(os.path.abspath(REPO_DIR), "vyxal"), (
        vyxal.__file__, REPO_DIR)
    import vyxal.context
    import vyxal.elements
    import vyxal.helpers
    import vyxal.LazyList
    import vyxal.lexer
    import vyxal.main
    import vyxal.parse
    import vyxal.structure
    import vyxal.transpile

    import warnings

    warnings.filterwarnings("ignore")  # sympy installs its own "always" filter for its deprecation chatter
    _loaded.update(
        vyxal=vyxal, context=vyxal.context, elements=vyxal.elements, helpers=vyxal.helpers,
        LazyList=vyxal.LazyList, lexer=vyxal.lexer, main=vyxal.main, parse=vyxal.parse,
        structure=vyxal.structure, transpile=vyxal.transpile,
    )
    return _loaded
