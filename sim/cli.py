"""Command line: ./check <ID> [--tier quick|thorough] [--seed N] [--workers N] [--runs N] [--wall S]
                 ./check replay <file> [--json]
                 ./check selftest determinism|sensitivity [...]
Exit codes: 0 property held on everything explored, 1 VIOLATION, 2 harness error.
"""

import argparse
import importlib
import json
import os
import sys
import warnings

warnings.filterwarnings("ignore")  # sympy deprecation chatter from the code under test

from sim import core

CHECKS = ["C10", "C11", "C12", "C13", "C14", "C19"]


def load_check(cid):
    mod = importlib.import_module(f"checks.{cid.lower()}")
    return mod.CHECK


def main(argv=None):
    argv = list(sys.argv[1:] if argv is None else argv)
    if not argv:
        print(__doc__)
        return 2
    if argv[0] == "replay":
        ap = argparse.ArgumentParser()
        ap.add_argument("path")
        ap.add_argument("--json", action="store_true")
        a = ap.parse_args(argv[1:])
        with open(a.path, encoding="utf-8") as f:
            rep = json.load(f)
        chk = load_check(rep["property"])
        chk.setup()
        out = chk.run(rep["case"])
        if a.json:
            print(core.jdump(dict(verdict=out["verdict"], sig=out.get("sig"), detail=out.get("detail"))))
        else:
            for line in out.get("log", []):
                print("  ", core.jdump(line))
            print(f"verdict={out['verdict']} sig={out.get('sig')} detail={out.get('detail')}")
            if out["verdict"] == core.VIOLATION:
                known, _ = core.load_known(chk.id)
                e = core.match_known(known, out["sig"])
                if e is not None:
                    print(f"KNOWN-FINDING: property={chk.id} {e['what']}")
                    return 0
                print(f"VIOLATION property={chk.id} replay={a.path}")
        return 1 if out["verdict"] == core.VIOLATION and not a.json else 0
    if argv[0] == "selftest":
        from selftest import main as st

        return st.main(argv[1:])
    ap = argparse.ArgumentParser()
    ap.add_argument("check")
    ap.add_argument("--tier", default=os.environ.get("VERIF_TIER", "quick"), choices=["quick", "thorough"])
    ap.add_argument("--seed", type=int, default=int(os.environ.get("VERIF_SEED", core.DEFAULT_SEED)))
    ap.add_argument("--workers", type=int, default=int(os.environ.get("VERIF_WORKERS", os.cpu_count() or 1)))
    ap.add_argument("--runs", type=int, default=None)
    ap.add_argument("--wall", type=float, default=None)
    a = ap.parse_args(argv)
    chk = load_check(a.check.upper())
    return core.run_check(chk, a.tier, a.seed, a.workers, runs=a.runs, wall=a.wall)


if __name__ == "__main__":
    try:
        rc = main()
    except SystemExit as e:
        rc = e.code if isinstance(e.code, int) else 2
    except BaseException:  # an exception of the harness itself must never look like a verdict (exit 1)
        import traceback

        traceback.print_exc()
        print("HARNESS-ERROR: uncaught exception in the harness")
        rc = 2
    # Leave without running the interpreter's teardown: CPython 3.12.1 can overflow the C stack while deallocating
    # the long chains of itertools.tee objects that Vyxal's deep_copy builds (also on the unchanged tree), which
    # would turn a correct exit status into a segfault.
    sys.stdout.flush()
    sys.stderr.flush()
    os._exit(rc if isinstance(rc, int) else 0)
