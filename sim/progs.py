"""Program trees for the program-driven checks (C11, C12, C19): generation, rendering, shrinking.

A program is a list of nodes; a node is a JSON list:
  ["t", text]                      literal or element token(s), rendered verbatim
  ["for", body] / ["forv", name, body]
  ["while", cond, body]
  ["if", then] / ["if", then, else]
  ["lam", arity|None, body, after]  after: text appended after the closing ';' ("†", "M", "F", ...)
  ["map", body] ["filter", body] ["sort", body]
  ["fdef", name, [params], body]  ["fcall", name]
  ["mod", ch, [nodes]]             modifier followed by the elements it consumes
  ["list", [items]]                list literal; each item is a body
  ["X"] ["x"]
"""

from __future__ import annotations

BODY_KINDS = {"for": [1], "forv": [2], "while": [1, 2], "if": [1, 2, 3, 4, 5, 6, 7, 8], "lam": [2], "map": [1], "filter": [1],
              "sort": [1], "fdef": [3], "mod": [2], "exec": [1]}


def render_body(body):
    return " ".join(render(n) for n in body)


def render(n):
    k = n[0]
    if k == "t":
        return n[1]
    if k == "for":
        return "( " + render_body(n[1]) + " )"
    if k == "forv":
        return "( " + n[1] + " | " + render_body(n[2]) + " )"
    if k == "while":
        return "{ " + render_body(n[1]) + " | " + render_body(n[2]) + " }"
    if k == "if":
        branches = [b for b in n[1:] if b is not None]
        return "[ " + " | ".join(render_body(b) for b in branches) + " ]"
    if k == "lam":
        head = "λ" if n[1] is None else f"λ{n[1]}|"
        return head + " " + render_body(n[2]) + " ;" + (" " + n[3] if n[3] else "")
    if k == "map":
        return "ƛ " + render_body(n[1]) + " ;"
    if k == "filter":
        return "' " + render_body(n[1]) + " ;"
    if k == "sort":
        return "µ " + render_body(n[1]) + " ;"
    if k == "fdef":
        return "@" + n[1] + "".join(":" + p for p in n[2]) + "| " + render_body(n[3]) + " ;"
    if k == "fcall":
        return "@" + n[1] + ";"
    if k == "mod":
        return n[1] + " " + render_body(n[2])
    if k == "list":
        return "⟨ " + " | ".join(render_body(it) for it in n[1]) + " ⟩"
    if k in ("X", "x"):
        return k
    if k == "exec":
        return "`" + render_body(n[1]).replace("`", "") + "` Ė"
    raise ValueError(n)


def walk(n, chain=()):
    """Yield (node, chain of enclosing construct kinds)."""
    yield n, chain
    k = n[0]
    if k in BODY_KINDS:
        for idx in BODY_KINDS[k]:
            if idx < len(n) and isinstance(n[idx], list):
                for c in n[idx]:
                    yield from walk(c, chain + (k,))
    elif k == "list":
        for it in n[1]:
            for c in it:
                yield from walk(c, chain + ("list",))


def exits_of(nodes):
    """Sorted list of 'X@<nearest breakable construct>' descriptors (for signatures and coverage)."""
    out = set()
    for top in nodes:
        for n, chain in walk(top):
            if n[0] in ("X", "x"):
                owner = "top"
                for c in reversed(chain):
                    if c in ("for", "forv", "while", "lam", "map", "filter", "sort", "fdef", "mod"):
                        owner = {"forv": "for"}.get(c, c)
                        break
                depth = len(chain)
                out.add(f"{n[0]}@{owner}")
    return sorted(out)


def shrink_nodes(nodes):
    """Yield simpler node lists: delete a node, hoist a node's body, at any depth."""
    for i in range(len(nodes)):
        yield nodes[:i] + nodes[i + 1:]
    for i, n in enumerate(nodes):
        k = n[0]
        if k in BODY_KINDS:
            for idx in BODY_KINDS[k]:
                if idx < len(n) and isinstance(n[idx], list):
                    yield nodes[:i] + list(n[idx]) + nodes[i + 1:]  # hoist
                    for sub in shrink_nodes(n[idx]):
                        m = list(n)
                        m[idx] = sub
                        yield nodes[:i] + [m] + nodes[i + 1:]
            if k == "lam" and n[3]:
                yield nodes[:i] + [["lam", n[1], n[2], ""]] + nodes[i + 1:]
            if k == "lam" and n[1] is not None:
                yield nodes[:i] + [["lam", None, n[2], n[3]]] + nodes[i + 1:]
            if k == "if" and len(n) > 2 and n[2] is not None:
                yield nodes[:i] + [["if", n[1]]] + nodes[i + 1:]
                if len(n) > 3:
                    yield nodes[:i] + [n[:-1]] + nodes[i + 1:]
        elif k == "list":
            for j in range(len(n[1])):
                yield nodes[:i] + [["list", n[1][:j] + n[1][j + 1:]]] + nodes[i + 1:]
                for sub in shrink_nodes(n[1][j]):
                    yield nodes[:i] + [["list", n[1][:j] + [sub] + n[1][j + 1:]]] + nodes[i + 1:]
        elif k == "t" and n[1] not in ("1", "0"):
            if n[1].isdigit():
                yield nodes[:i] + [["t", "1"]] + nodes[i + 1:]


# ------------------------------------------------------------------------------------------------
# generation

NILADS = ["0", "1", "2", "3", "4", "n", "n", "?", "!", "¥", "←a", "←b", "u", "¾", "`ab`", "`c`"]
MONADS = ["›", "‹", "d", "N", "²", "±", "₂", "¬", "L", "w", ":", "_", "D", "h", "t", "Ṙ", "ɾ", "ʀ", "∑", "f", "U",
          "s", "S", "ḃ", "ḣ", "ṫ", "¦", "¯", "z", "ė", "Ḃ", "Ḣ", "Ṫ", "ż", "ẏ"]
DYADS = ["+", "-", "*", "=", "<", ">", "∧", "∨", "\"", "J", "$", "p", "Z", "Y", "i", "Ẏ", "ȯ", "%", "ẋ", "o", "c"]
EFFECTS = ["£", "→a", "→b", "⅛", "_"]
PRINTS = [",", "₴", "…", "¨,"]
LAZY_MAKERS = ["3ɾ", "2ʀ", "4ɾ", "⟨1|2|3⟩ ƛ › ;", "3ɾ ƛ d ;", "3ɾ ' ₂ ;", "3ɾ : J", "3ɾ Ṙ", "2ɾ ¦", "3ɾ ›",
               "λ › ;", "⟨ λ › ; | 2 ⟩", "λ2| + ;", "⟨ 3ɾ | 2ʀ ⟩", "3ɾ ƛ ɾ ;",
               # lazily evaluated higher-order results: the function runs when (and where) the list is forced
               "3ɾ ɖ+", "4ɾ ɖ*", "⟨1|2|3⟩ ɖ-", "3ɾ ⁽› Z", "3ɾ ⁽₂ F", "3ɾ λ › ; M", "3ɾ ⁽› ẇ", "3ɾ ⁽d Ẇ", "⟨2|1|3⟩ ⁽N ṡ",
               "3ɾ ƛ › ; ∑", "3ɾ ƛ d ; G", "3ɾ ƛ › ; s", "3ɾ ƛ › ; Ṙ", "3ɾ ƛ › ; L", "3ɾ ƛ › ; f", "3ɾ ƛ › ; U", "3ɾ ƛ › ; Π", "3ɾ ƛ › ; g",
               "3ɾ ƛ › ; a", "3ɾ ƛ › ; A", "3ɾ ƛ › ; ∆M" if False else "3ɾ ƛ › ; t", "3ɾ ƛ › ; Ṡ", "3ɾ ' ₂ ; ∑", "3ɾ ⁽› Z ∑",
               "3ɾ λ2| + ; ɖ" if False else "3ɾ ɖ‹", "⟨1|1⟩ ⁽+ Ḟ 4 Ẏ", "3ɾ ⁽› ÞZ" if False else "3ɾ v›"]
# terminating recursion: the lambda calls itself (x) until its argument reaches 0
RECURSIONS = ["60 λ ‹ : [ x ] ; †", "300 λ ‹ : [ x ] ; †", "450 λ ‹ : [ x ] ; †", "450 λ ‹ : [ x ] ; †", "3 λ : [ ‹ x ] ; †", "2 λ : [ ‹ x | 7 ] ; †", "⟨2|1⟩ ƛ : [ ‹ x ] ;", "2 λ : [ ‹ x X ] 5 ; †", "3 λ : 0 > [ ‹ v x ] ; †",
              "2 λ : [ ‹ ⁽ x † ] ; †", "3 λ : [ ‹ x , ] ; †"]
MODS1 = ["v", "⁽", "&", "~", "ß", "ƒ", "ɖ"]
MODS2 = ["₌", "‡", "₍"]
MODS3 = ["≬"]


class Gen:
    def __init__(self, rng, cfg):
        self.r = rng
        self.cfg = cfg
        self.fnames = []

    def simple(self):
        r = self.r
        x = r.random()
        if x < 0.30:
            return ["t", r.choice(NILADS)]
        if x < 0.60:
            return ["t", r.choice(MONADS)]
        if x < 0.80:
            return ["t", r.choice(DYADS)]
        if x < 0.88:
            return ["t", r.choice(EFFECTS)]
        if x < 0.88 + self.cfg.get("p_print", 0.06):
            return ["t", r.choice(PRINTS)]
        if x > 0.985:
            return ["t", r.choice(RECURSIONS)]
        return ["t", r.choice(LAZY_MAKERS)]

    def exit_stmt(self):
        return [self.r.choice(["X", "X", "x"])] if self.r.random() < self.cfg.get("p_x_over_X", 0.35) else ["X"]

    def body(self, depth, ctx_kind, n=None):
        r = self.r
        n = n if n is not None else r.randint(1, 4)
        out = []
        for _ in range(n):
            out.append(self.node(depth, ctx_kind))
        # early exits at every legal position class: start / middle / end / inside a nested if
        if ctx_kind is not None and r.random() < self.cfg.get("p_exit", 0.45):
            ex = self.exit_stmt() if ctx_kind != "while" or r.random() < 0.3 else ["X"]
            where = r.choice(["start", "mid", "end", "if", "if", "aftermod"])
            if where == "aftermod":
                # the parser hands everything after a modifier to a recursive call: an exit that FOLLOWS a modifier
                # (or a modifier-made lambda) in the same body is parsed by that inner call
                out.append(["t", r.choice(["3ɾ ⁽› M _", "1 2 ‡+d _", "1 ≬›d› _", "3ɾ v› _", "2 &› ", "⟨1|2⟩ ƒ+ _", "3ɾ ⁽₂ F _"])])
                out.append(ex)
            elif where == "start":
                out.insert(0, ex)
            elif where == "mid":
                out.insert(r.randint(0, len(out)), ex)
            elif where == "end":
                out.append(ex)
            else:
                cond = ["t", r.choice(["n", "1", "0", "n 2 <", "n ₂", "!"])]
                pos = r.randint(0, len(out))
                branch = [ex] if r.random() < 0.6 else [self.simple(), ex]
                z = r.random()
                if z < 0.5:
                    node = ["if", branch]
                elif z < 0.7:
                    node = ["if", [self.simple()], branch]
                elif z < 0.85:
                    node = ["if", [self.simple()], [["t", r.choice(["n 2 =", "1", "n ₂"])]], branch]  # exit in an else-if body
                else:
                    node = ["if", [self.simple()], [["t", "0"]], [self.simple()], [["t", "1"]], branch, [self.simple()]]
                out[pos:pos] = [cond, node]
        return out

    def node(self, depth, ctx_kind):
        r = self.r
        if depth >= self.cfg.get("max_depth", 4) or r.random() < 0.55:
            return self.simple()
        k = r.choices(
            ["for", "forv", "while", "if", "lam", "map", "filter", "sort", "fdef", "mod", "list", "print_lazy", "exec"],
            list(self.cfg.get("weights", [5, 2, 2, 3, 4, 4, 2, 1, 2, 3, 1, 2]))[:12] + [self.cfg.get("w_exec", 1)])[0]
        d = depth + 1
        if k == "for":
            return ["mod_seq", [["t", r.choice(["2", "3", "1", "⟨1|2⟩", "2ɾ", "0"])], ["for", self.body(d, "for")]]]
        if k == "forv":
            return ["mod_seq", [["t", r.choice(["2", "3", "⟨4|5⟩"])], ["forv", r.choice(["i", "j"]), self.body(d, "for")]]]
        if k == "while":
            # counter pattern on a reserved variable: 3 →ka { ←ka | ←ka ‹ →ka body }  (the body may do anything
            # to the stack; the loop ends when the counter reaches 0)
            var = "k" + "abcdefgh"[min(depth, 7)]
            body = [["t", f"←{var} ‹ →{var}"]] + self.body(d, "while", n=r.randint(0, 3))
            cond = [["t", f"←{var}"]]
            if r.random() < self.cfg.get("p_cond_exit", 0.3):
                # a break written in the CONDITION of the loop: reached at the first evaluation, at a re-evaluation, or
                # depending on the enclosing context value (the loop it leaves is this one)
                cond += [["t", r.choice([": 1 =", ": 2 =", "1", "n 2 =", "n"])], ["if", [["X"]]]]
            return ["mod_seq", [["t", r.choice(["1", "2", "3"]) + f" →{var}"], ["while", cond, body]]]
        if k == "if":
            cond = ["t", r.choice(["1", "0", "n", "!", "2 n <"])]
            y = r.random()
            if y < 0.4:
                return ["mod_seq", [cond, ["if", self.body(d, ctx_kind, n=r.randint(1, 2))]]]
            if y < 0.7:
                return ["mod_seq", [cond, ["if", self.body(d, ctx_kind, n=r.randint(1, 2)),
                                           self.body(d, ctx_kind, n=r.randint(1, 2))]]]
            # else-if chain: [ then | cond2 | then2 (| cond3 | then3) (| else) ]
            chain = ["if", self.body(d, ctx_kind, n=r.randint(1, 2))]
            for _ in range(r.randint(1, 2)):
                chain.append([["t", r.choice(["n 2 =", "0", "1", "n ₂", "!"])]])
                chain.append(self.body(d, ctx_kind, n=r.randint(1, 2)))
            if r.random() < 0.5:
                chain.append(self.body(d, ctx_kind, n=1))
            return ["mod_seq", [cond, chain]]
        if k == "lam":
            arity = r.choice([None, None, 0, 1, 2, 3])
            after = r.choice(["†", "†", "†", "M", "F", "", "Ḟ", "ṡ", "R", "Ż", "ẇ", "Ẇ", "ġ" if False else "†"])
            pre = []
            if after in ("M", "F", "ṡ", "R", "ẇ", "Ẇ"):
                pre = [["t", r.choice(["3ɾ", "⟨1|2|3⟩", "2ʀ"])]]
            elif after in ("†",):
                pre = [["t", r.choice(["1", "2 3", "", "4"])]]
            elif after == "Ḟ":
                pre = [["t", "⟨1|1⟩"]]
                return ["mod_seq", pre + [["lam", 2, self.body(d, "lam", n=r.randint(1, 2)), "Ḟ 3 Ẏ"]]]
            return ["mod_seq", [p for p in pre if p[1]] + [["lam", arity, self.body(d, "lam"), after]]]
        if k in ("map", "filter", "sort"):
            src = ["t", r.choice(["3ɾ", "⟨1|2|3⟩", "2ʀ", "⟨⟨1|2⟩|⟨3⟩⟩", "3"])]
            return ["mod_seq", [src, [k, self.body(d, "lam")]]]
        if k == "fdef":
            name = r.choice(["f", "g", "h"])
            params = r.choice([[], ["1"], ["2"], ["a"], ["a", "b"], ["*"], ["1", "a"]])
            call_pre = ["t", r.choice(["1 2", "3", "1 2 3", ""])]
            seq = [["fdef", name, params, self.body(d, "fdef")]]
            if call_pre[1]:
                seq.append(call_pre)
            seq.append(["fcall", name])
            if r.random() < 0.3:
                seq.append(["fcall", name])
            return ["mod_seq", seq]
        if k == "mod":
            ch = r.choice(MODS1 + MODS1 + MODS2 + MODS3)
            cnt = 1 if ch in MODS1 else (2 if ch in MODS2 else 3)
            elems = []
            for _ in range(cnt):
                if r.random() < 0.35 and d < self.cfg.get("max_depth", 4):
                    elems.append(["lam", r.choice([None, 1, 2]), self.body(d + 1, "lam", n=r.randint(1, 2)), ""])
                else:
                    elems.append(["t", r.choice(MONADS + DYADS + ["n", "x"] if False else MONADS + DYADS + ["n"])])
            pre = ["t", r.choice(["3ɾ", "1 2", "⟨1|2|3⟩", "2"])]
            return ["mod_seq", [pre, ["mod", ch, elems]]]
        if k == "list":
            items = [self.body(d, None, n=r.randint(1, 2)) for _ in range(r.randint(0, 3))]
            return ["list", items]
        if k == "print_lazy":
            return ["mod_seq", [["t", r.choice(LAZY_MAKERS)], ["t", r.choice(PRINTS)]]]
        if k == "exec":
            # code executed from a string (Ė): its own loops / lambdas / early exits, occasionally a Q (exit)
            body = self.body(d, None, n=r.randint(1, 3))
            if r.random() < 0.25:
                body.append(["mod_seq", [["t", "2"], ["for", [["t", "n"], ["t", r.choice(["1 [ Q ]", "n 2 = [ Q ]", "Q"])]]]]])
            return ["exec", body]
        raise AssertionError(k)


def flatten_seq(nodes):
    """'mod_seq' is a generation-time grouping only; splice it into the parent list."""
    out = []
    for n in nodes:
        if n[0] == "mod_seq":
            out.extend(flatten_seq(n[1]))
            continue
        k = n[0]
        if k in BODY_KINDS:
            m = list(n)
            for idx in BODY_KINDS[k]:
                if idx < len(m) and isinstance(m[idx], list):
                    m[idx] = flatten_seq(m[idx])
            out.append(m)
        elif k == "list":
            out.append(["list", [flatten_seq(it) for it in n[1]]])
        else:
            out.append(n)
    return out


def gen_program(rng, cfg, nstmts=None):
    g = Gen(rng, cfg)
    n = nstmts if nstmts is not None else rng.randint(2, 7)
    nodes = [g.node(0, None) for _ in range(n)]
    if rng.random() < 0.85:
        nodes.insert(0, ["t", "0 →a 1 →b"])  # reading an unset variable is a NameError
    return flatten_seq(nodes)
