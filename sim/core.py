"""Core of the simulator: seeded sub-streams, the parallel run loop, minimisation, replay files,
known-finding triage and the evidence writer.

One integer (VERIF_SEED) decides everything: run i of check C draws its whole case from
`sub_rng(seed, C, i, <stream>)`.  A *case* is a JSON value holding the swarm configuration and the
concrete list of events (workload, schedule and fault events alike); `Check.run(case)` is a pure
function of the case and of the code under test, so a replay file needs no PRNG.
"""

from __future__ import annotations

import faulthandler
import hashlib
import json
import multiprocessing
import os
import random
import subprocess
import sys
import time
import traceback
from concurrent.futures import ProcessPoolExecutor, as_completed

VERIF_DIR = os.path.dirname(os.path.dirname(os.path.abspath(__file__)))
REPO_DIR = os.environ.get("VERIF_REPO", "/repo")
DEFAULT_SEED = 20261002
COLLECT_DIGESTS = False  # per-run digests (case + event log + verdict) are only collected for the determinism self-test
MAX_REPORTED = 6  # violating signature classes minimised and reported per invocation (all are counted)
HIST_CAP = 4_000_000  # exact distinct-history counting stops here (reported as a lower bound)

OK, VIOLATION, DISCARD = "ok", "violation", "discard"


# ------------------------------------------------------------------------------------------------
# seeded sub-streams


def sub_rng(seed, *names) -> random.Random:
    """Independent named PRNG stream; adding a draw in one stream never shifts another."""
    key = "/".join(str(n) for n in (seed,) + names)
    return random.Random(int.from_bytes(hashlib.sha256(key.encode()).digest()[:8], "big"))


def jdump(obj) -> str:
    return json.dumps(obj, ensure_ascii=False, sort_keys=True, separators=(",", ":"), default=str)


def digest(obj) -> str:
    return hashlib.sha256(jdump(obj).encode()).hexdigest()[:16]


# ------------------------------------------------------------------------------------------------
# the interface every check implements


class Check:
    id = "C00"
    title = ""
    # tier -> number of runs, batch size, wall-clock cap (seconds) after which no new batch starts
    tiers = {"quick": dict(runs=1000, batch=100, wall=60), "thorough": dict(runs=10000, batch=100, wall=600)}
    components_real: list = []
    components_stub: list = []
    rule = ""
    assumptions: list = []
    fault_kinds: list = []

    def setup(self):
        """Import the code under test (once, before forking)."""

    def gen(self, seed, run, tier) -> dict:
        raise NotImplementedError

    def run(self, case) -> dict:
        """-> {verdict, sig, detail, log, steps, faults: {kind: n}, cov: [str], probes: {name: n}}"""
        raise NotImplementedError

    def shrink(self, case):
        """Yield simpler candidate cases (generic list shrinking over case['events'] by default)."""
        yield from shrink_events(case)

    def same_failure(self, a, b) -> bool:
        return a.get("sig") == b.get("sig")

    reps_per_class = 3
    minimise_budget = 300

    def self_contained(self, case) -> bool:
        """True if the case carries its own history of earlier executions (used when a violation found in a worker
        does not reproduce in the parent because something kept state across runs)."""
        return False

    def sig_class(self, sig) -> str:
        """Coarse class used to group violating runs before minimisation."""
        return sig


def shrink_events(case, key="events"):
    ev = case.get(key) or []
    n = len(ev)
    size = n // 2
    while size >= 1:
        for start in range(0, n, size):
            cand = dict(case)
            cand[key] = ev[:start] + ev[start + size :]
            if len(cand[key]) < n:
                yield cand
        size //= 2


# ------------------------------------------------------------------------------------------------
# known findings


def load_known(prop):
    path = os.path.join(VERIF_DIR, "known_findings.json")
    try:
        with open(path, encoding="utf-8") as f:
            data = json.load(f)
    except FileNotFoundError:
        return [], []
    known = [e for e in data.get("findings", []) if e.get("property") == prop and e.get("status") == "known"]
    fixed = [e for e in data.get("findings", []) if e.get("property") == prop and e.get("status") == "fixed"]
    return known, fixed


def match_known(known, sig):
    for e in known:
        if e.get("signature") == sig:
            return e
    return None


# ------------------------------------------------------------------------------------------------
# worker side

_CHECK = None


def _worker_batch(args):
    seed, tier, lo, hi, timeout = args
    chk = _CHECK
    per_run = getattr(chk, "per_run_timeout", None)
    if not per_run:
        faulthandler.dump_traceback_later(timeout, exit=True)
    agg = dict(
        n=0, verdicts={}, steps=0, faults={}, probes={}, cov=set(), hist=set(), violations=[], samples=[],
        digests=[], discards={}, errors=[],
    )
    for i in range(lo, hi):
        if per_run:
            # wall-clock backstop for ONE run: a loop the step clock cannot see (C level, or generator finalisers) ends
            # this worker; the parent drops the batch, counts it as lost and carries on with a fresh pool
            faulthandler.dump_traceback_later(per_run, exit=True)
        try:
            case = chk.gen(seed, i, tier)
            out = chk.run(case)
        except BaseException as e:  # harness error: never OK, never VIOLATION
            if isinstance(e, (KeyboardInterrupt, SystemExit)):
                raise
            agg["errors"].append(dict(run=i, error=repr(e), tb=traceback.format_exc()[-3000:]))
            continue
        agg["n"] += 1
        v = out["verdict"]
        agg["verdicts"][v] = agg["verdicts"].get(v, 0) + 1
        agg["steps"] += out.get("steps", 0)
        for k, c in out.get("faults", {}).items():
            agg["faults"][k] = agg["faults"].get(k, 0) + c
        for k, c in out.get("probes", {}).items():
            agg["probes"][k] = agg["probes"].get(k, 0) + c
        for c in out.get("cov", ()):
            agg["cov"].add(c)
        if out.get("hist") is not None and v != DISCARD:
            agg["hist"].add(out["hist"])
        if v == DISCARD:
            r = out.get("sig", "discard")
            agg["discards"][r] = agg["discards"].get(r, 0) + 1
        if v == VIOLATION and len(agg["violations"]) < 40:
            agg["violations"].append(dict(run=i, case=case, sig=out["sig"], detail=out.get("detail", ""),
                                          size=len(jdump(case))))
        if len(agg["samples"]) < 2 and v == OK:
            agg["samples"].append(dict(run=i, case=case, log=out.get("log", [])[:40]))
        if COLLECT_DIGESTS:
            agg["digests"].append((i, digest([case, out.get("log"), v, out.get("sig")])))
    faulthandler.cancel_dump_traceback_later()
    agg["cov"] = sorted(agg["cov"])
    agg["hist"] = sorted(agg["hist"])
    return agg


# ------------------------------------------------------------------------------------------------
# parent side


def explore(chk: Check, tier: str, seed: int, workers: int, runs=None, wall=None, quiet=False):
    """Run the seeded search.  Returns the merged aggregate."""
    global _CHECK
    _CHECK = chk
    cfg = dict(chk.tiers[tier])
    if runs is not None:
        cfg["runs"] = runs
    if wall is not None:
        cfg["wall"] = wall
    chk.setup()
    t0 = time.time()
    total = dict(n=0, verdicts={}, steps=0, faults={}, probes={}, cov=set(), hist=set(), violations=[], samples=[],
                 digests=[], discards={}, errors=[], scheduled=0, cut_short=False, lost_batches=[], suspects=set())
    batches = [(seed, tier, lo, min(lo + cfg["batch"], cfg["runs"]), cfg.get("batch_timeout", 600))
               for lo in range(0, cfg["runs"], cfg["batch"])]

    def merge(agg):
        total["n"] += agg["n"]
        total["steps"] += agg["steps"]
        for name in ("verdicts", "faults", "probes", "discards"):
            for k, c in agg[name].items():
                total[name][k] = total[name].get(k, 0) + c
        if len(total["cov"]) < 200_000:
            total["cov"].update(agg["cov"])
        if len(total["hist"]) < HIST_CAP:
            total["hist"].update(agg["hist"])
        else:
            total["hist_saturated"] = True
        total["violations"].extend(agg["violations"])
        if len(total["samples"]) < 6:
            total["samples"].extend(agg["samples"][: 6 - len(total["samples"])])
        total["digests"].extend(agg["digests"])
        total["errors"].extend(agg["errors"])

    if workers <= 1:
        for b in batches:
            if time.time() - t0 > cfg["wall"]:
                total["cut_short"] = True
                break
            total["scheduled"] += 1
            merge(_worker_batch(b))
    else:
        from concurrent.futures.process import BrokenProcessPool

        ctx = multiprocessing.get_context("fork")
        it = iter(batches)
        exhausted = False
        retry = []
        while True:
            ex = ProcessPoolExecutor(max_workers=workers, mp_context=ctx)
            pending = {}
            broken = False
            try:
                while True:
                    # suspects are re-run one at a time, so that a second death names the guilty batch alone
                    while (retry or not exhausted) and len(pending) < (1 if retry else workers * 2):
                        if not retry and time.time() - t0 > cfg["wall"]:
                            total["cut_short"] = True
                            exhausted = True
                            break
                        if retry:
                            b = retry.pop()
                        else:
                            try:
                                b = next(it)
                            except StopIteration:
                                exhausted = True
                                break
                            total["scheduled"] += 1
                        pending[ex.submit(_worker_batch, b)] = b
                    if not pending:
                        break
                    done = next(as_completed(list(pending)))
                    b = pending.pop(done)
                    try:
                        merge(done.result())
                    except BrokenProcessPool:
                        # a worker died (per-run wall-clock backstop or a crash of the interpreter): every batch that was
                        # in flight is re-run once in a fresh pool, one batch per task, so that only the guilty one is lost
                        broken = True
                        for fut, bb in list(pending.items()) + [(done, b)]:
                            if bb[1:4] in total["suspects"]:
                                total["lost_batches"].append([bb[2], bb[3]])
                            else:
                                total["suspects"].add(bb[1:4])
                                retry.append(bb)
                        pending = {}
                        break
            finally:
                if broken:
                    # a broken pool never recovers; make sure none of its workers outlives it (the CLI leaves through
                    # os._exit, so nothing would reap them, and they would keep our stdout open)
                    for proc in list(getattr(ex, "_processes", {}).values()):
                        try:
                            proc.kill()
                        except Exception:
                            pass
                    ex.shutdown(wait=False, cancel_futures=True)
                else:
                    ex.shutdown(wait=True)
            if not broken:
                break
            if len(total["lost_batches"]) > max(3, len(batches) // 20):
                break
    total["wall_s"] = time.time() - t0
    total["violations"].sort(key=lambda v: (v["size"], v["run"]))
    total["samples"].sort(key=lambda s: s["run"])
    total["digests"].sort()
    return total


def minimise(chk: Check, case, out, budget=300):
    """Greedy shrinking: accept a candidate only while the same failure (same signature) persists."""
    cur, cur_out, spent = case, out, 0
    progress = True
    while progress and spent < budget:
        progress = False
        for cand in chk.shrink(cur):
            if spent >= budget:
                break
            spent += 1
            try:
                o = chk.run(cand)
            except BaseException as e:
                if isinstance(e, (KeyboardInterrupt, SystemExit)):
                    raise
                continue
            if o["verdict"] == VIOLATION and chk.same_failure(o, cur_out):
                cur, cur_out, progress = cand, o, True
                break
    return cur, cur_out, spent


def write_replay(chk, seed, run, case, out, tag="") -> str:
    rdir = os.environ.get("VERIF_REPLAY_DIR") or os.path.join(VERIF_DIR, "replays")
    os.makedirs(rdir, exist_ok=True)
    name = f"{chk.id}-{seed}-{run}{tag}.json"
    path = os.path.join(rdir, name)
    with open(path, "w", encoding="utf-8") as f:
        json.dump(dict(property=chk.id, seed=seed, run=run, case=case,
                       expect=dict(sig=out["sig"], detail=out.get("detail", "")), log=out.get("log", [])),
                  f, ensure_ascii=False, indent=1, default=str)
    return path


def fresh_replay(path, expect_sig):
    """Replay a file in a fresh interpreter; True iff it fails the same way."""
    env = dict(os.environ)
    r = subprocess.run([os.path.join(VERIF_DIR, "check"), "replay", path, "--json"], capture_output=True, text=True,
                       env=env, timeout=600)
    try:
        res = json.loads(r.stdout.strip().splitlines()[-1])
    except Exception:
        return False, dict(stdout=r.stdout[-2000:], stderr=r.stderr[-2000:])
    return (res.get("verdict") == VIOLATION and res.get("sig") == expect_sig), res


def write_evidence(chk: Check, tier, seed, total, n_viol, known_hits, extra=None):
    edir = os.environ.get("VERIF_EVIDENCE_DIR") or os.path.join(VERIF_DIR, "evidence")
    os.makedirs(edir, exist_ok=True)
    wall = max(total["wall_s"], 1e-6)
    cov = dict(
        evaluations=total["n"],
        distinct_nontrivial=len(total["hist"]),
        rule=chk.rule,
        samples=[dict(run=s["run"], case=s["case"], event_log=s["log"]) for s in total["samples"][:4]],
        runs_per_hour=int(total["n"] / wall * 3600),
        seeds_per_hour=int(total["n"] / wall * 3600),
        simulated_steps=total["steps"],
        simulated_time_note="time is discrete steps: traced lines in vyxal/transpiled code plus pulls from "
                            "instrumented sources plus harness events; there are no wall-clock timers in the code",
        verdicts=total["verdicts"],
        discards=total["discards"],
        faults_fired=total["faults"],
        fault_kinds_available=chk.fault_kinds,
        probes_hit=total["probes"],
        distinct_coverage_keys=len(total["cov"]),
        coverage_keys_sample=sorted(total["cov"])[:60],
        harness_errors=len(total["errors"]),
        lost_batches=len(total["lost_batches"]),
        cut_short_by_wall_clock=total["cut_short"],
        components_real=chk.components_real,
        components_stub=chk.components_stub,
        known_findings_hit=known_hits,
        distinct_count_saturated=bool(total.get("hist_saturated")),
        exhaustive=False,
    )
    if extra:
        cov.update(extra)
    ev = dict(property_id=chk.id, tier=tier, seed=seed, level="exploration", coverage=cov,
              assumptions=chk.assumptions, wall_s=round(total["wall_s"], 2), violations=n_viol)
    path = os.path.join(edir, f"{chk.id}.json")
    tmp = path + ".tmp"
    with open(tmp, "w", encoding="utf-8") as f:
        json.dump(ev, f, ensure_ascii=False, indent=1, default=str)
    os.replace(tmp, path)
    return path


def run_check(chk: Check, tier: str, seed: int, workers: int, runs=None, wall=None) -> int:
    print(f"[{chk.id}] VERIF_SEED={seed} tier={tier} workers={workers} repo={REPO_DIR}", flush=True)
    known, fixed = load_known(chk.id)
    total = explore(chk, tier, seed, workers, runs=runs, wall=wall)
    rate = total["n"] / max(total["wall_s"], 1e-6)
    print(f"[{chk.id}] runs={total['n']} wall={total['wall_s']:.1f}s ({rate * 3600:.0f}/h) verdicts={total['verdicts']} "
          f"steps={total['steps']} distinct_histories={len(total['hist'])} cov_keys={len(total['cov'])}", flush=True)
    print(f"[{chk.id}] faults_fired={total['faults']} probes={total['probes']} discards={total['discards']}", flush=True)
    if total["lost_batches"]:
        print(f"[{chk.id}] LOST-BATCHES: {len(total['lost_batches'])} batch(es) {total['lost_batches'][:5]} were dropped because a "
              f"worker died twice on them (wall-clock backstop for a single run, or an interpreter crash); their runs are "
              f"not counted", flush=True)
    # many lost batches alone are a harness problem (exit 2) -- unless the batches that did complete contain violations that
    # reproduce from their replay files: a change that makes runs spin SLOWLY (each step expensive) kills workers by the
    # wall-clock backstop and, in the runs that reach their step budget, is reported as what it is
    too_many_lost = len(total["lost_batches"]) > max(3, total["scheduled"] // 20)
    if total["errors"]:
        e = total["errors"][0]
        print(f"[{chk.id}] HARNESS-ERROR in run {e['run']}: {e['error']}\n{e['tb']}", flush=True)
        write_evidence(chk, tier, seed, total, 0, {})
        return 2
    if total["n"] == 0:
        print(f"[{chk.id}] HARNESS-ERROR: no run completed")
        return 2

    # triage: group by signature class; known findings are matched on the exact (minimised) signature
    by_cls = {}
    for v in total["violations"]:
        by_cls.setdefault(chk.sig_class(v["sig"]), []).append(v)
    known_hits, new_paths, harness_bad = {}, [], False
    seen_min = set()
    unrepro = []

    def confirm_fresh(vs, skip):
        """Confirm one run of this class in a FRESH interpreter, where no earlier run can have left anything behind;
        cases that carry their own cross-execution history (chk.self_contained) are tried first."""
        cands = sorted([x for x in vs if x is not skip], key=lambda x: (not chk.self_contained(x["case"]), x["size"]))
        for v2 in cands[:8]:
            if match_known(known, v2["sig"]) is not None or v2["sig"] in seen_min:
                continue
            o2 = dict(sig=v2["sig"], detail=v2.get("detail", ""), log=[])
            path = write_replay(chk, seed, v2["run"], v2["case"], o2, tag="-asfound")
            ok, res = fresh_replay(path, v2["sig"])
            if ok:
                seen_min.add(v2["sig"])
                new_paths.append((v2["sig"], path, dict(sig=v2["sig"], detail=v2.get("detail", "") + " [not minimised: the "
                                  "violation depends on an earlier execution in the same process]"), 0, len(vs)))
                return True
        return False

    for cls, vs in sorted(by_cls.items()):
        if len(new_paths) >= MAX_REPORTED:
            print(f"[{chk.id}] further violating class not minimised (already {MAX_REPORTED} reported): {cls} ({len(vs)} runs)")
            continue
        reps, seen_raw = [], set()
        for v in vs:  # smallest cases first; up to REPS distinct raw signatures per class
            if v["sig"] not in seen_raw:
                seen_raw.add(v["sig"])
                reps.append(v)
            if len(reps) >= chk.reps_per_class:
                break
        for v in reps:
            e = match_known(known, v["sig"])
            if e is not None:
                known_hits[e["signature"]] = known_hits.get(e["signature"], 0) + sum(1 for x in vs if x["sig"] == v["sig"])
                continue
            out = chk.run(v["case"])
            if out["verdict"] != VIOLATION or out["sig"] != v["sig"]:
                # not reproducible outside the worker that found it: either the harness or the code under test keeps
                # state across runs.  Try the other runs of this class before giving up on it.
                unrepro.append((v["run"], v["sig"], out["verdict"], out.get("sig")))
                # Prefer cases that carry their own cross-execution history (chk.self_contained) and confirm each
                # candidate in a FRESH interpreter, where no earlier run can have left anything behind.
                if confirm_fresh(vs, v):
                    break
                continue
            mcase, mout, spent = minimise(chk, v["case"], out, budget=chk.minimise_budget)
            if mout["sig"] in seen_min:
                continue
            seen_min.add(mout["sig"])
            e = match_known(known, mout["sig"])
            if e is not None:
                known_hits[e["signature"]] = known_hits.get(e["signature"], 0) + 1
                continue
            path = write_replay(chk, seed, v["run"], mcase, mout)
            ok, res = fresh_replay(path, mout["sig"])
            if not ok:
                # the minimised case does not stand on its own in a fresh interpreter: fall back to the case as found
                path = write_replay(chk, seed, v["run"], v["case"], out, tag="-unminimised")
                ok, res = fresh_replay(path, out["sig"])
                if ok:
                    mout, spent = out, 0
            if not ok:
                unrepro.append((v["run"], v["sig"], "fresh-replay", str(res)[:200]))
                if confirm_fresh(vs, v):
                    break
                continue
            new_paths.append((mout["sig"], path, mout, spent, len(vs)))

    for e in known:
        if e["signature"] in known_hits:
            print(f"KNOWN-FINDING: property={chk.id} {e['what']} [signature {e['signature']}; "
                  f"{known_hits[e['signature']]} runs]")
        else:
            print(f"KNOWN-FINDING: property={chk.id} {e['what']} [signature {e['signature']}; not re-encountered in this run]")
    for sig, path, mout, spent, n in new_paths:
        print(f"[{chk.id}] violation signature={sig} runs={n} minimised in {spent} re-executions: {mout.get('detail', '')}")
        print(f"VIOLATION property={chk.id} replay={path}")
    for u in unrepro[:8]:
        print(f"[{chk.id}] NOT-REPRODUCIBLE: run {u[0]} reported {u[1]} in its worker but gave {u[2]} {u[3]} on re-execution "
              f"(state kept across executions by the harness or by the code under test)")
    write_evidence(chk, tier, seed, total, len(new_paths), known_hits, extra=dict(not_reproducible=len(unrepro)))
    if new_paths:
        return 1
    if too_many_lost:
        print(f"[{chk.id}] HARNESS-ERROR: too many lost batches")
        return 2
    if harness_bad or unrepro:
        print(f"[{chk.id}] HARNESS-ERROR: violations were reported but none could be reproduced from its replay file")
        return 2
    print(f"[{chk.id}] OK: property held on everything explored")
    return 0
