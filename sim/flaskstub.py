"""Layer b of C19: the real flask_app.py on a stub flask / flask_cors and a simulated multiprocessing.

Real code: flask_app.index / execute / kill (route functions, session table, timeout selection,
file hand-off, response assembly) and, as the child, vyxal.main.execute_vyxal.
Stubs: flask.Flask (route decorator only), flask.request (a form dict), render_template,
flask_cors.CORS, multiprocessing.Manager / Process.
The child runs in-process under the step clock when the parent calls join(timeout); the timeout is
`seconds x steps-per-second` (the seeded "node speed"), and a /kill request is delivered at a seeded
child step through the real kill() handler.
"""

from __future__ import annotations

import importlib.util
import os
import shutil
import sys
import tempfile
import types

from sim import canary, core, progs, world
from sim.core import OK, VIOLATION, DISCARD, REPO_DIR


class _Request:
    def __init__(self):
        self.form = {}
        self.headers = {}


class _Flask:
    def __init__(self, name):
        self.name = name
        self.routes = {}

    def route(self, path, methods=("GET",)):
        def deco(fn):
            self.routes[path] = fn
            return fn
        return deco


def _make_flask_modules():
    flask = types.ModuleType("flask")
    flask.Flask = _Flask
    flask.request = _Request()
    flask.render_template = lambda name, **kw: {"template": name, **kw}
    cors = types.ModuleType("flask_cors")
    cors.CORS = lambda app: None
    return flask, cors


class SimProcess:
    """multiprocessing.Process stand-in.  The target runs when the parent joins."""

    def __init__(self, sim, target=None, args=()):
        self.sim, self.target, self.args = sim, target, args
        self.started = False
        self.finished = False
        self.killed = False
        self.outcome = None
        sim.procs.append(self)

    def start(self):
        self.started = True

    def join(self, timeout=None):
        if self.finished or self.killed or not self.started:
            return
        sim = self.sim
        chk = sim.chk
        budget = None if timeout is None else max(1, int(timeout * sim.speed))
        kill_at = budget
        user_at = sim.user_kill_at
        if user_at is not None and (kill_at is None or user_at < kill_at):
            kill_at = user_at
        # child: its own stdout/stderr, its own canary window
        out, err = world.RecordingStdout(), world.RecordingStdout()
        chk.out = out
        chk.print_depth, chk.prints_done, chk.chunks = 0, 0, []
        old = (sys.stdout, sys.stderr)
        sys.stdout, sys.stderr = out, err
        canary.ACTIVE[0] = True
        cap = 40_000
        hard = min(kill_at, cap) if kill_at is not None else cap
        def on_kill():
            # the child is dead from this instant: nothing it does while the simulated kill unwinds reaches the manager
            for a in self.args:
                if hasattr(a, "freeze"):
                    a.freeze()

        world.CLOCK.start(budget=None, kill_at=hard, count_string=True, on_kill=on_kill)
        try:
            with world.rec_limit():
                self.target(*self.args)
            self.outcome = "ok"
            self.finished = True
        except SystemExit as e:
            self.outcome = f"exit:{e.code}"
            self.finished = True
        except world.Killed:
            if kill_at is not None and hard == kill_at:
                self.outcome = "killed"
            else:
                self.outcome = "budget"
        except world.ValueTooBig:
            self.outcome = "too-big"
            self.finished = True
        except RecursionError:
            self.outcome = "raised:RecursionError"
            self.finished = True
        except Exception as e:
            self.outcome = "raised:" + type(e).__name__
            self.finished = True
        finally:
            sim.child_steps = world.CLOCK.stop()
            for a in self.args:  # the unwinding child is gone; the parent (flask handler) may write to the record again
                if hasattr(a, "freeze"):
                    a.dead = False
            sys.stdout, sys.stderr = old
            canary.ACTIVE[0] = False
            chk.out = None
        sim.child_stdout, sim.child_stderr = out.getvalue(), err.getvalue()
        sim.child_prints = chk.prints_done
        if sim.overlap_request is not None:
            # ANOTHER browser tab's complete request (its own session, program, child and record) is served while this
            # request is still blocked in join(): requests overlap in a threaded server
            other, sim.overlap_request = sim.overlap_request, None
            saved_form = sim.app.request.form
            saved = (sim.child_stdout, sim.child_stderr, sim.child_prints, sim.child_steps, sim.user_kill_at, sim.speed)
            try:
                sess_b = sim.app.index()["session"]
                sim.app.request.form = dict(flags="", code=other, inputs="", header="", footer="", session=sess_b)
                sim.user_kill_at, sim.speed = None, 10 ** 9
                sim.overlap_response = sim.app.execute()
            finally:
                sim.app.request.form = saved_form
                (sim.child_stdout, sim.child_stderr, sim.child_prints, sim.child_steps, sim.user_kill_at, sim.speed) = saved
        if sim.page_loads_during_run:
            # other browser tabs load the page while this request is blocked in join()
            n_, sim.page_loads_during_run = sim.page_loads_during_run, 0
            for _ in range(n_):
                sim.app.index()
        if self.outcome == "killed" and user_at is not None and kill_at == user_at:
            # the user's /kill request lands now, through the real handler, while execute() is blocked in join
            sim.deliver_user_kill()

    def is_alive(self):
        return self.started and not self.finished and not self.killed

    def kill(self):
        self.killed = True
        self.sim.kills += 1


class SimManager:
    def __init__(self, sim):
        self.sim = sim

    def dict(self):
        from checks.c19 import SimDictProxy

        d = SimDictProxy()
        self.sim.records.append(d)
        return d


class SimMP:
    """What flask_app sees as the `multiprocessing` module."""

    def __init__(self, chk):
        self.chk = chk
        self.reset()

    def reset(self, speed=1000, user_kill_at=None):
        self.speed = speed
        self.user_kill_at = user_kill_at
        self.procs = []
        self.records = list(getattr(self, "import_time_records", []))
        self.kills = 0
        self.child_steps = 0
        self.child_stdout = self.child_stderr = ""
        self.child_prints = 0
        self.user_kill_delivered = False
        self.page_loads_during_run = 0
        self.overlap_request = None
        self.overlap_response = None
        self.app = None
        self.session = None

    def Manager(self):
        return SimManager(self)

    def Process(self, target=None, args=()):
        return SimProcess(self, target, args)

    def deliver_user_kill(self):
        fa = self.app
        fa.request.form = {"session": self.session}
        fa.kill()
        self.user_kill_delivered = True


def load(chk):
    """Import the real flask_app.py (once per process) with the stubs in place, in a scratch cwd."""
    flask, cors = _make_flask_modules()
    sys.modules["flask"] = flask
    sys.modules["flask_cors"] = cors
    scratch = tempfile.mkdtemp(prefix="verif-flask-")
    old_cwd = os.getcwd()
    os.chdir(scratch)
    # the simulated multiprocessing is in place BEFORE flask_app is imported, so that anything the module creates at
    # import time (a module-level Manager, a shared record) is simulated too and no real process is ever started
    simmp = SimMP(chk)
    real_mp = sys.modules.get("multiprocessing")
    sys.modules["multiprocessing"] = simmp
    try:
        spec = importlib.util.spec_from_file_location("verif_flask_app", os.path.join(REPO_DIR, "flask_app.py"))
        fa = importlib.util.module_from_spec(spec)
        spec.loader.exec_module(fa)
    finally:
        os.chdir(old_cwd)
        if real_mp is not None:
            sys.modules["multiprocessing"] = real_mp
        else:
            sys.modules.pop("multiprocessing", None)
    simmp.import_time_records = list(simmp.records)
    fa.__scratch__ = scratch
    fa.multiprocessing = simmp
    # the child is the same execute_vyxal object the direct layer drives (with the seams installed)
    fa.execute_vyxal = chk.main.execute_vyxal
    import atexit

    atexit.register(lambda: shutil.rmtree(scratch, ignore_errors=True))
    return fa


TIMEOUT_FLAGS = {"5": 5, "T": 60, "b": 15, "B": 30}


def run_case(chk, fa, case):
    text = progs.render_body(case["nodes"])
    flags, inputs, fault = case["flags"], case["inputs"], case["fault"]
    log = [dict(program=text, flags=flags, inputs=inputs, fault=fault, layer="flask", speed=case.get("speed"))]
    cov, faults = {"layer:flask"}, {}
    sim = fa.multiprocessing
    hist = chk.hist(case, text)
    has_canary = "verif_canary" in text or any("verif_canary" in i for i in inputs)
    mode_dependent = case.get("uses_eval") or any(t in text for t in ("E", "†", "Ė", "¨U")) or "c" in flags

    phase = ["fault-free"]

    def fail(clause, detail):
        fa.sessions.clear()
        fa.terminated.clear()
        sig = f"{clause}:flask-{phase[0]}"
        log.append(dict(violation=sig, detail=detail))
        return dict(verdict=VIOLATION, sig=sig, detail=f"[flask] program={text!r} flags={flags!r} inputs={inputs}: {detail}",
                    log=log, steps=sim.child_steps, cov=sorted(cov), faults=faults, hist=hist)

    tab = {"session": None}

    def request(speed, user_kill_at, tflag="", same_tab=False, page_loads=0, late_kill_first=False, overlap=None):
        world.World(inputs=[])  # reset seams
        world.URLLIB.reset(mode="ok", payload=b"[1,2]")
        canary.reset()
        sim.reset(speed=speed, user_kill_at=user_kill_at)
        sim.app = fa
        sim.page_loads_during_run = page_loads
        sim.overlap_request = overlap
        server_out = world.RecordingStdout()
        old_cwd, old_out = os.getcwd(), sys.stdout
        os.chdir(fa.__scratch__)
        sys.stdout = server_out
        try:
            if not (same_tab and tab["session"]):
                tab["session"] = fa.index()["session"]
            session = tab["session"]
            sim.session = session
            if late_kill_first:
                # the user presses "kill" after the previous run of this tab is already over
                fa.request.form = {"session": session}
                fa.kill()
            fa.request.form = dict(flags=flags + tflag, code=text, inputs="\n".join(inputs), header="", footer="",
                                   session=session)
            resp = fa.execute()
        finally:
            sys.stdout = old_out
            os.chdir(old_cwd)
        # the process of THIS request is the first one created during it (an overlapping request creates another)
        proc = sim.procs[0] if sim.procs else None
        return resp, proc

    def cleanup():
        fa.sessions.clear()
        fa.terminated.clear()

    scenario = case.get("scenario", "single")
    cov.add("scenario:" + scenario)
    # fault-free request: a fast child finishes well inside the timeout
    try:
        resp0, p0 = request(10 ** 9, None, page_loads=(case.get("page_loads", 0) if scenario == "page_loads" else 0),
                            overlap=("`other-tab` ," if scenario == "overlap" else None))
    except Exception as e:
        cleanup()
        return fail("handler-raised", f"flask_app.execute raised {type(e).__name__}: {e}"
                                      + (f" ({case.get('page_loads')} page loads arrived during the run)" if scenario == "page_loads" else ""))
    if scenario == "overlap" and sim.overlap_response is not None:
        if sim.overlap_response.get("stdout") != "other-tab\n":
            cleanup()
            return fail("response-differs", f"a request served while another was running returned stdout "
                                            f"{sim.overlap_response.get('stdout', '')[:60]!r} instead of its own output")
    if scenario == "two_runs" and p0 is not None and p0.outcome == "ok":
        # the same tab runs the same program again: same answer
        try:
            resp0b, p0b = request(10 ** 9, None, same_tab=True)
        except Exception as e:
            cleanup()
            return fail("handler-raised", f"second run in the same tab: flask_app.execute raised {type(e).__name__}: {e}")
        if not case.get("uses_eval") and resp0b.get("stdout") != resp0.get("stdout") and "℅" not in text and "Þ℅" not in text:
            cleanup()
            return fail("response-differs", f"second run in the same tab returned {resp0b.get('stdout', '')[:60]!r}, the first "
                                            f"{resp0.get('stdout', '')[:60]!r}")
    log.append(dict(req="fault-free", child=p0.outcome if p0 else None, stdout=resp0.get("stdout", "")[:100],
                    stderr=resp0.get("stderr", "")[-80:], child_steps=sim.child_steps))
    if p0 is None or p0.outcome in ("budget", "too-big"):
        return dict(verdict=DISCARD, sig=(p0.outcome if p0 else "no-child"), log=log, steps=sim.child_steps, hist=None)
    r = dict(stdout=sim.child_stdout, stderr=sim.child_stderr, hits=list(canary.HITS), compiles=list(canary.COMPILES),
             outcome=p0.outcome, rec2=resp0.get("stderr", ""))
    v = chk.judge_online(r, "fault-free request")
    if v:
        return fail(*v)
    n0 = sim.child_steps
    full = resp0.get("stdout", "")
    # the response must be what the program wrote to its record: compare with the same program run directly
    if p0.outcome in ("ok",) or p0.outcome.startswith("exit:"):
        direct = chk.exec_once(text, flags, inputs, True)
        if direct["outcome"] == p0.outcome and not has_canary:
            if resp0.get("stdout", "") != direct["rec1"]:
                return fail("response-differs", f"flask returned stdout {resp0.get('stdout', '')[:80]!r} but the program's "
                                                f"output record is {direct['rec1'][:80]!r}")
            if direct["rec2"].strip() and direct["rec2"].strip()[-40:] not in resp0.get("stderr", ""):
                return fail("response-differs", f"the program's error record {direct['rec2'][-60:]!r} is missing from the "
                                                f"response's stderr {resp0.get('stderr', '')[-60:]!r}")
    if p0.outcome == "ok" and "timed out" in resp0.get("stderr", ""):
        return fail("spurious-timeout", "a child that finished in time was reported as timed out")
    steps_total = n0
    # timeout / user-kill request: a slow child
    phase[0] = "kill"
    if p0.outcome == "ok" and n0 > 3:
        tflag = ""
        for f_, secs in TIMEOUT_FLAGS.items():
            if f_ in flags:
                break
        secs = 10
        for f_ in ("5", "T", "b", "B"):
            if f_ in flags:
                secs = TIMEOUT_FLAGS[f_]
                break
        frac = fault.get("frac", 0.5) if fault["kind"] in ("kill",) else 0.5
        k = max(1, min(n0 - 1, int(frac * n0)))
        # choose the node speed so that the timeout falls at child step k
        speed = k / secs
        uk = case.get("user_kill_frac")
        user_at = max(1, min(n0 - 1, int(uk * n0))) if uk is not None else None
        late = scenario == "late_kill_then_slow"
        if late:
            user_at = None
        try:
            resp1, p1 = request(speed, user_at, same_tab=late, late_kill_first=late)
        except Exception as e:
            cleanup()
            return fail("handler-raised", f"flask_app.execute raised {type(e).__name__}: {e} (slow child)")
        steps_total += sim.child_steps
        faults["timeout_kill" if not sim.user_kill_delivered else "user_kill"] = 1
        log.append(dict(req="slow-child", child=p1.outcome, kill_step=sim.child_steps, user_kill=sim.user_kill_delivered,
                        stdout=resp1.get("stdout", "")[:100], stderr=resp1.get("stderr", "")[-80:], kills=sim.kills))
        r1 = dict(stdout=sim.child_stdout, stderr=sim.child_stderr, hits=list(canary.HITS), compiles=list(canary.COMPILES),
                  outcome=p1.outcome, rec2=resp1.get("stderr", ""))
        v = chk.judge_online(r1, "request with a slow child")
        if v:
            return fail(*v)
        if p1.outcome == "killed":
            if not full.startswith(resp1.get("stdout", "")):
                return fail("record-not-prefix", f"response stdout {resp1.get('stdout', '')[:80]!r} of the killed child is "
                                                 f"not a prefix of the full output {full[:80]!r}")
            err1 = resp1.get("stderr", "")
            if sim.user_kill_delivered:
                if "terminated" not in err1.lower():
                    return fail("kill-unreported", f"the user's kill is not named in stderr {err1[-80:]!r}")
            elif "timed out" not in err1:
                return fail("timeout-unreported", f"the timeout is not named in stderr {err1[-80:]!r}")
            if not p1.killed:
                return fail("child-not-killed", "the child outlived the timeout and was never killed")
            cov.add("killed:" + ("user" if sim.user_kill_delivered else "timeout"))
    cov.add("child:" + p0.outcome.split(":")[0])
    cleanup()
    return dict(verdict=OK, sig="", log=log, steps=steps_total, cov=sorted(cov), faults=faults, hist=hist,
                probes={"flask_requests": 1, "canary_run": int(has_canary)})
