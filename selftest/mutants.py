"""Hand-made sensitivity mutants: each breaks one claimed property while still compiling.
A mutant is (id, property, file, old, new, what).  `old` must occur exactly once in the file.
They are applied to a scratch copy of /repo (never to /repo), the property's check must exit 1, and
the copy is deleted.  tools: ./check selftest sensitivity [--only ID,...] [--with-tests]
"""

M = []


def mut(mid, prop, file, old, new, what):
    M.append(dict(id=mid, property=prop, file=file, old=old, new=new, what=what))


LL = "vyxal/LazyList.py"
EL = "vyxal/elements.py"
HP = "vyxal/helpers.py"
TP = "vyxal/transpile.py"
MN = "vyxal/main.py"

# ---------------------------------------------------------------- C10
mut("c10-reverse-inplace", "C10", EL,
    "        list: lambda: lhs[::-1],\n        LazyList: lambda: lhs.reversed(),",
    "        list: lambda: (lhs.reverse() or lhs),\n        LazyList: lambda: lhs.reversed(),",
    "Ṙ reverses an eager list in place")
mut("c10-sort-inplace", "C10", EL,
    "    else:\n        return LazyList(sorted(lhs))\n",
    "    elif isinstance(lhs, list):\n        lhs.sort()\n        return lhs\n    else:\n        return LazyList(sorted(lhs))\n",
    "s sorts an eager list in place")
mut("c10-concat-extend", "C10", HP,
    "    if LazyList not in (type(vec1), type(vec2)):\n        return vec1 + vec2\n",
    "    if LazyList not in (type(vec1), type(vec2)):\n        vec1 += vec2\n        return vec1\n",
    "J / p concatenate with += on the first argument")
mut("c10-assign-inplace", "C10", EL,
    "        lhs = deep_copy(lhs) if isinstance(lhs, LazyList) else lhs[::]\n",
    "",
    "Ȧ writes into its argument (the repaired defect comes back)")
mut("c10-assign-lazy-cache", "C10", EL,
    "        lhs = deep_copy(lhs) if isinstance(lhs, LazyList) else lhs[::]\n",
    "        lhs = lhs if isinstance(lhs, LazyList) else lhs[::]\n",
    "Ȧ writes into a LazyList's shared cache (eager lists are still copied)")
mut("c10-genfromfn-append", "C10", EL,
    "        made = list(lhs)\n",
    "        made = lhs\n",
    "Ḟ appends to its seed when forced (the repaired defect comes back)")
mut("c10-head-remove-pop", "C10", EL,
    "def head_remove(lhs, ctx):",
    "def head_remove(lhs, ctx):\n    if isinstance(lhs, list) and lhs:\n        lhs.pop(0)\n        return lhs",
    "Ḣ pops the head off the argument list itself")
mut("c10-vectorise-reuses-arg", "C10", EL,
    "def increment(lhs, ctx):",
    "def increment(lhs, ctx):\n    if isinstance(lhs, list) and lhs and all(type(x) is int for x in lhs):\n"
    "        for i in range(len(lhs)):\n            lhs[i] += 1\n        return lhs",
    "› on a flat int list increments in place (fast path)")

# ---------------------------------------------------------------- C11
mut("c11-cursor-twice", "C11", HP,
    "            ret = ctx.inputs[0][0][ctx.inputs[0][1] % len(ctx.inputs[0][0])]\n            ctx.inputs[0][1] += 1\n",
    "            ret = ctx.inputs[0][0][ctx.inputs[0][1] % len(ctx.inputs[0][0])]\n            ctx.inputs[0][1] += 2\n",
    "explicit read advances the cursor by two")
mut("c11-no-modulo", "C11", HP,
    "            ret = ctx.inputs[-1][0][ctx.inputs[-1][1] % len(ctx.inputs[-1][0])]\n",
    "            ret = ctx.inputs[-1][0][min(ctx.inputs[-1][1], len(ctx.inputs[-1][0]) - 1)]\n",
    "implicit reads stick at the last input instead of wrapping around")
mut("c11-lambda-no-scope", "C11", TP,
    '        + indent_str(\n            "ctx.inputs.append([list(deep_copy(stack))[::-1], 0]);",\n            indent + 1,\n        )\n',
    '        + indent_str(\n            "ctx.inputs.append(ctx.inputs[-1]);",\n            indent + 1,\n        )\n',
    "a lambda shares its caller's input scope instead of cycling its own arguments")
mut("c11-explicit-innermost", "C11", EL,
    '        "ctx.use_top_input = True; lhs = get_input(ctx); "\n        "ctx.use_top_input = False; stack.append(lhs)",',
    '        "lhs = get_input(ctx); "\n        "ctx.use_top_input = False; stack.append(lhs)",',
    "? reads the innermost scope instead of the program's inputs")
mut("c11-empty-input-string", "C11", HP,
    "            except Exception:  # skipcq: PYL-W0703\n                temp = 0\n            return temp",
    "            except Exception:  # skipcq: PYL-W0703\n                temp = \"\"\n            return temp",
    "with no inputs and no stdin a read yields '' instead of 0")
mut("c11-only-eoferror", "C11", HP,
    "            except Exception:  # skipcq: PYL-W0703\n                temp = 0\n            return temp",
    "            except EOFError:\n                temp = 0\n            return temp",
    "get_input survives EOF only; an OSError on stdin escapes")
mut("c11-function-scope-shared-cursor", "C11", TP,
    '            + indent_str("ctx.inputs.append([parameters[::-1], 0])", indent + 1)',
    '            + indent_str("ctx.inputs.append([parameters[::-1], ctx.inputs[0][1]])", indent + 1)',
    "NOT-A-VIOLATION: a function's input scope starts at the program's cursor position instead of 0 (still a cycle over "
    "the call's arguments; the statement fixes neither direction nor starting point)")
mut("c11-deferred-rewind", "C11", EL,
    "    @lazylist\n    def gen():\n        for element in itr:\n            yield safe_apply(function, element, ctx=ctx)\n",
    "    @lazylist\n    def gen():\n        saved = ctx.inputs[0][1]\n        for element in itr:\n            yield safe_apply(function, element, ctx=ctx)\n        ctx.inputs[0][1] = saved\n",
    "a fully forced map rewinds the shared input cursor to where it was when the map started")

# ---------------------------------------------------------------- C12
mut("c12-for-no-pop", "C12", TP,
    '            + indent_str("    ctx.context_values.pop()", indent)\n        )\n    if isinstance(struct, vyxal.structure.WhileLoop):',
    '            + indent_str("    pass", indent)\n        )\n    if isinstance(struct, vyxal.structure.WhileLoop):',
    "for loop never pops its context value")
mut("c12-break-no-pop", "C12", TP,
    '            return indent_str("ctx.context_values.pop()", indent) + indent_str(\n                "break", indent\n            )',
    '            return indent_str("break", indent)',
    "break skips the loop's pop (the repaired defect comes back)")
mut("c12-continue-no-pop", "C12", TP,
    '            return indent_str("ctx.context_values.pop()", indent) + indent_str(\n                "continue", indent\n            )',
    '            return indent_str("continue", indent)',
    "continue skips the loop's pop (the repaired defect comes back)")
mut("c12-lambda-X-two-of-four", "C12", TP,
    '                + indent_str("ctx.stacks.pop()", indent)\n                + indent_str("ctx.function_stack.pop()", indent)\n                + indent_str("return ret", indent)',
    '                + indent_str("return ret", indent)',
    "early return from a lambda pops two of four (the repaired defect comes back)")
mut("c12-function-X-no-stack", "C12", TP,
    '                + indent_str("ctx.context_values.pop()", indent)\n                + indent_str("ctx.stacks.pop()", indent)\n                + indent_str("return stack", indent)',
    '                + indent_str("ctx.context_values.pop()", indent)\n                + indent_str("return stack", indent)',
    "EQUIVALENT: the FunctionDef branch of the X lowering is dead code (the parser tags X inside @f...; with "
    "FunctionCall, so X there is lowered to 'pass')")
mut("c12-output-no-pop", "C12", LL,
    '            vy_print(" ⟩" if ctx.vyxal_lists else "]", end, ctx=ctx)\n        ctx.stacks.pop()\n',
    '            vy_print(" ⟩" if ctx.vyxal_lists else "]", end, ctx=ctx)\n',
    "printing a lazy list leaks a registered stack (the repaired defect comes back)")
mut("c12-lambda-no-fs-pop", "C12", TP,
    '        + indent_str("ctx.function_stack.pop()", indent + 1)\n        + indent_str("return res", indent + 1)',
    '        + indent_str("return res", indent + 1)',
    "a lambda that returns normally leaves itself on the active-function stack")
mut("c12-while-body-pop-only-when-true", "C12", TP,
    '            + indent_str("    ctx.context_values.pop()", indent)\n        )\n    if isinstance(struct, vyxal.structure.FunctionCall):',
    '            + indent_str("    if len(stack) > 0: ctx.context_values.pop()", indent)\n        )\n    if isinstance(struct, vyxal.structure.FunctionCall):',
    "while loop pops its context value only when the stack is non-empty at the end of the body")

# ---------------------------------------------------------------- C13
mut("c13-len-off-by-one", "C13", LL,
    "            except StopIteration:\n                break\n        return len(self.generated)\n",
    "            except StopIteration:\n                break\n        return max(len(self.generated) - (1 if len(self.generated) > 6 else 0), 0)\n",
    "len() of lists longer than 6 is one short")
mut("c13-contains-stops-early", "C13", LL,
    "        else:\n            for temp in self:\n                if temp == lhs:\n                    return 1\n            return 0",
    "        else:\n            for temp in self.generated:\n                if temp == lhs:\n                    return 1\n            return 0",
    "membership on a finite list looks only at what is already generated")
mut("c13-wrap-modulus", "C13", LL,
    "                    return self.generated[position % len(self.generated)]",
    "                    return self.generated[position % (len(self.generated) + 1) if position > len(self.generated) else position % len(self.generated)]",
    "wrap-around index uses len+1 as modulus past the end")
mut("c13-iter-reyields-cache", "C13", LL,
    "        yield from self.generated\n        i = len(self.generated)\n",
    "        yield from self.generated\n        i = len(self.generated) - (1 if len(self.generated) == 3 else 0)\n",
    "iteration re-yields the last cached item when exactly three are cached")
mut("c13-bool-consumes", "C13", LL,
    "        if self.generated:\n            return True\n        try:",
    "        try:",
    "truthiness pulls an item every time (the repaired defect comes back)")
mut("c13-negindex-doubles", "C13", LL,
    "            if position < 0:\n                return self.listify()[position]",
    "            if position < 0:\n                self.generated += list(self)\n                return self.generated[position]",
    "negative index doubles the cache (the repaired defect comes back)")
mut("c13-reversed-tee", "C13", LL,
    "        for item in self.listify()[::-1]:\n            yield item",
    "        self.generated += list(itertools.tee(self.raw_object)[-1])\n        for item in self.generated[::-1]:\n            yield item",
    "reversed() on a copy duplicates (the repaired defect comes back)")
mut("c13-slice-wraps", "C13", LL,
    "                    if not self.has_ind(i):\n                        break\n",
    "",
    "bounded slice wraps around past the end (part of the repaired defect)")
mut("c13-count-on-cache", "C13", LL,
    "        temp = self.listify()\n        return temp.count(other)",
    "        temp = self.generated if self.generated else self.listify()\n        return temp.count(other)",
    "count() trusts a partly filled cache")
mut("c13-eq-after-partial", "C13", LL,
    "        elif isinstance(other, LazyList):\n            return self.listify() == other.listify()",
    "        elif isinstance(other, LazyList):\n            return self.listify() == (other.generated or other.listify())",
    "equality with another lazy list reads only its cache when it has one")

# ---------------------------------------------------------------- C14
mut("c14-deltas-eager", "C14", EL,
    "    lhs = iterable(lhs, ctx=ctx)\n\n    @lazylist\n    def gen():\n        prev = None\n        for item in lhs:",
    "    lhs = list(iterable(lhs, ctx=ctx))\n\n    @lazylist\n    def gen():\n        prev = None\n        for item in lhs:",
    "deltas materialises its argument")
mut("c14-uniquify-len", "C14", EL,
    "        seen = []\n        t = iterable(lhs, ctx=ctx)\n        for item in t:",
    "        seen = []\n        t = iterable(lhs, ctx=ctx)\n        if len(t) == 0:\n            return\n        for item in t:",
    "uniquify asks for the length first")
mut("c14-hasind-readahead", "C14", LL,
    "            for _ in range(ind - len(self.generated) + 1):",
    "            for _ in range(ind - len(self.generated) + 1000):",
    "has_ind pulls a fixed 1000 items ahead")
mut("c14-iter-listify", "C14", LL,
    "    def __iter__(self):\n        yield from self.generated\n",
    "    def __iter__(self):\n        if not self.infinite or len(self.generated) > 30:\n            self.listify()\n        yield from self.generated\n",
    "iteration listifies first once more than 30 items are cached")
mut("c14-zip-quadratic", "C14", EL,
    "            left = iter(iterable(lhs))\n            right = iter(iterable(rhs))\n",
    "            left = iter(iterable(lhs))\n            right = iter(iterable(rhs))\n            if isinstance(lhs, LazyList):\n                lhs[200]\n",
    "zip pre-fetches 200 items of its left argument")
mut("c14-interleave-lookahead", "C14", EL,
    "        lhs_iter = iter(lhs)\n        rhs_iter = iter(rhs)\n        while True:\n            try:\n                yield next(lhs_iter)",
    "        lhs_iter = iter(lhs)\n        rhs_iter = iter(rhs)\n        n = 0\n        while True:\n            n += 1\n            if n % 16 == 0 and isinstance(lhs, LazyList):\n                lhs[n * n]\n            try:\n                yield next(lhs_iter)",
    "interleave reads quadratically far ahead every 16 items")
mut("c14-scanl-restart", "C14", HP,
    "    working = None\n    vector = iterable(vector, ctx=ctx)\n    for item in vector:",
    "    working = None\n    vector = iterable(vector, ctx=ctx)\n    if isinstance(vector, LazyList) and vector.infinite:\n        vector[64]\n    for item in vector:",
    "cumulative reduce pre-fetches 64 items of an infinite argument")
mut("c14-index-open-stop", "C14", LL,
    "                def infinite_index():\n                    i = start or 0\n                    while self.has_ind(i):",
    "                def infinite_index():\n                    i = start or 0\n                    if i > 2:\n                        len(self)\n                    while self.has_ind(i):",
    "slicing from an offset > 2 with an open stop asks for the length")

# ---------------------------------------------------------------- C19
mut("c19-print-direct", "C19", EL,
    '    "₴": ("top = pop(stack, 1, ctx); vy_print(top, end=\'\', ctx=ctx)", 1),',
    '    "₴": ("top = pop(stack, 1, ctx); print(top, end=\'\') if type(top) is str else vy_print(top, end=\'\', ctx=ctx)", 1),',
    "₴ on a string prints straight to stdout")
mut("c19-output-prints", "C19", LL,
    '        vy_print("⟨ " if ctx.vyxal_lists else "[", "", ctx=ctx)\n',
    '        print("⟨ " if ctx.vyxal_lists else "[", end="")\n',
    "LazyList.output writes the opening bracket to the host's stdout")
mut("c19-eval-online", "C19", HP,
    "    if ctx.online:\n        try:\n            t = ast.literal_eval(item)",
    "    if ctx.online:\n        try:\n            t = ast.literal_eval(item) if len(item) < 24 else eval(item)",
    "vy_eval falls back to eval for long strings online")
mut("c19-call-string-online", "C19", EL,
    "        str: lambda: exec(top) or [] if not ctx.online else [],",
    "        str: lambda: exec(top) or [],",
    "† on a string executes it online")
mut("c19-input-eval", "C19", MN,
    "        inputs = list(map(lambda x: vy_eval(x, ctx), inputs))",
    "        inputs = list(map(lambda x: vy_eval(x, ctx) if x[:1] != '[' else vyxalify(eval(x)), inputs))",
    "list-shaped inputs are parsed with eval")
mut("c19-narrow-except", "C19", MN,
    "    except Exception as e:  # skipcq: PYL-W0703\n        if ctx.online:\n            ctx.online_output[2] += \"\\n\" + traceback.format_exc()\n            sys.exit(1)\n        else:\n            raise\n",
    "    except (ValueError, TypeError) as e:  # skipcq: PYL-W0703\n        if ctx.online:\n            ctx.online_output[2] += \"\\n\" + traceback.format_exc()\n            sys.exit(1)\n        else:\n            raise\n",
    "only ValueError / TypeError are reported; anything else escapes")
mut("c19-buffered-output", "C19", EL,
    "        if ctx.online:\n            ctx.online_output[1] += vy_str(lhs, ctx=ctx) + end\n",
    "        if ctx.online:\n            ctx.pending = getattr(ctx, 'pending', '') + vy_str(lhs, ctx=ctx) + end\n"
    "            if len(ctx.pending) > 6 or end == '\\n':\n                ctx.online_output[1] += ctx.pending\n                ctx.pending = ''\n",
    "online output is buffered and flushed at newlines / 6 characters: a kill or an exit loses the tail")
mut("c19-c-flag-prints", "C19", MN,
    "        if ctx.online:\n            ctx.online_output[2] += code\n        else:\n            print(code + \"\\n\")",
    "        print(code + \"\\n\")",
    "the c flag prints the transpiled code to stdout even online")
mut("c19-output-unguarded", "C19", MN,
    "        if not (ctx.printed or \"O\" in flags) or \"o\" in flags:\n            vy_print(output, ctx=ctx)\n\n    except Exception as e:",
    "        pass\n\n    except Exception as e:",
    "SKIP")
mut("c19-error-swallowed", "C19", MN,
    "            ctx.online_output[2] += \"\\n\" + traceback.format_exc()\n            sys.exit(1)\n        else:\n            raise\n\n\ndef repl():",
    "            sys.exit(1)\n        else:\n            raise\n\n\ndef repl():",
    "a run-time error exits with status 1 but the error record stays empty")
mut("c19-request-offline-guard", "C19", EL,
    "        str: lambda: vy_eval(lhs, ctx),\n    }.get(ts, lambda: vectorise(exp2_or_eval, lhs, ctx=ctx))()",
    "        str: lambda: vy_eval(lhs, ctx) if not lhs.startswith('__') else vyxalify(eval(lhs)),\n    }.get(ts, lambda: vectorise(exp2_or_eval, lhs, ctx=ctx))()",
    "E evaluates dunder-prefixed strings with eval in either mode")

MUTANTS = [m for m in M if m["what"] != "SKIP" and not m["what"].startswith(("NOT-A-VIOLATION", "EQUIVALENT"))]
NOT_VIOLATIONS = [m for m in M if m["what"].startswith(("NOT-A-VIOLATION", "EQUIVALENT"))]
