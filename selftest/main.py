"""Self-tests of the machinery itself.

  ./check selftest determinism [--checks C10,C13] [--runs N]
      every check: the per-run digests (case + event log + verdict) must be identical across
      (a) two executions, (b) 1 worker vs 16 workers, (c) a fresh interpreter under another PYTHONHASHSEED.
  ./check selftest sensitivity [--only id,id] [--property C12] [--runs N] [--with-tests] [--jobs J]
      every mutant of selftest/mutants.py is applied to a scratch copy of /repo (outside /repo and
      /verif), the property's check must report a VIOLATION (exit 1), and the copy is removed.
  ./check selftest digest <ID> --runs N --workers W      (helper: prints one line with the digest)
"""

from __future__ import annotations

import argparse
import hashlib
import json
import os
import shutil
import subprocess
import sys
import tempfile
import time
from concurrent.futures import ThreadPoolExecutor

from sim import core

CHECKS = ["C10", "C11", "C12", "C13", "C14", "C19"]
DET_RUNS = {"C10": 1500, "C11": 1500, "C12": 1200, "C13": 20000, "C14": 2000, "C19": 600}


def digest_cmd(argv):
    ap = argparse.ArgumentParser()
    ap.add_argument("check")
    ap.add_argument("--runs", type=int, default=1000)
    ap.add_argument("--workers", type=int, default=1)
    ap.add_argument("--seed", type=int, default=core.DEFAULT_SEED)
    a = ap.parse_args(argv)
    from sim.cli import load_check

    chk = load_check(a.check)
    core.COLLECT_DIGESTS = True
    total = core.explore(chk, "quick", a.seed, a.workers, runs=a.runs, wall=3600)
    h = hashlib.sha256(core.jdump(total["digests"]).encode()).hexdigest()
    print(json.dumps(dict(check=a.check, runs=total["n"], digest=h, verdicts=total["verdicts"], errors=len(total["errors"]))))
    return 0


def run_digest(check, runs, workers, hashseed):
    env = dict(os.environ, VERIF_HASHSEED=str(hashseed))
    r = subprocess.run([os.path.join(core.VERIF_DIR, "check"), "selftest", "digest", check, "--runs", str(runs),
                        "--workers", str(workers)], capture_output=True, text=True, env=env, timeout=3600)
    try:
        return json.loads(r.stdout.strip().splitlines()[-1])
    except Exception:
        return dict(error=r.stdout[-500:] + r.stderr[-1500:])


def determinism(argv):
    ap = argparse.ArgumentParser()
    ap.add_argument("--checks", default=",".join(CHECKS))
    ap.add_argument("--runs", type=int, default=None)
    a = ap.parse_args(argv)
    bad = 0
    for c in a.checks.split(","):
        runs = a.runs or DET_RUNS[c]
        cfgs = [("1 worker, hashseed 0", 1, 0), ("1 worker again", 1, 0), ("16 workers", 16, 0),
                ("16 workers, hashseed 12345", 16, 12345)]
        t0 = time.time()
        with ThreadPoolExecutor(max_workers=2) as ex:
            res = list(ex.map(lambda cfg: run_digest(c, runs, cfg[1], cfg[2]), cfgs))
        ds = [r.get("digest") for r in res]
        ok = len(set(ds)) == 1 and ds[0] is not None and all(r.get("errors") == 0 for r in res)
        print(f"[determinism] {c}: runs={runs} {'IDENTICAL' if ok else 'DIVERGED'} digests={[d[:10] if d else d for d in ds]} "
              f"verdicts={res[0].get('verdicts')} ({time.time() - t0:.0f}s)")
        if not ok:
            bad += 1
            for cfg, r in zip(cfgs, res):
                print("   ", cfg[0], r)
    return 1 if bad else 0


def apply_mutant(scratch, m):
    path = os.path.join(scratch, m["file"])
    with open(path, encoding="utf-8") as f:
        s = f.read()
    n = s.count(m["old"])
    if n != 1:
        raise RuntimeError(f"mutant {m['id']}: pattern occurs {n} times in {m['file']}")
    with open(path, "w", encoding="utf-8") as f:
        f.write(s.replace(m["old"], m["new"]))


def make_scratch():
    scratch = tempfile.mkdtemp(prefix="verif-mut-")
    subprocess.run(["rsync", "-a", "--exclude", ".git", "--exclude", "__pycache__", "--exclude", ".pytest_cache",
                    core.REPO_DIR.rstrip("/") + "/", scratch + "/"], check=True)
    return scratch


def run_mutant(m, runs, with_tests, workers):
    scratch = make_scratch()
    t0 = time.time()
    try:
        try:
            apply_mutant(scratch, m)
        except RuntimeError as e:
            return dict(id=m["id"], property=m["property"], rc=-1, detected=False, n_viol=0, first=str(e), tests=None, secs=0)
        tests = None
        if with_tests:
            r = subprocess.run(["/venv/bin/python", "-m", "pytest", "-q", "-x", "-p", "no:cacheprovider"], cwd=scratch,
                               capture_output=True, text=True, timeout=1800,
                               env=dict(os.environ, PYTHONDONTWRITEBYTECODE="1"))
            tail = [l for l in r.stdout.splitlines() if "passed" in l or "failed" in l or "error" in l]
            tests = tail[-1] if tail else f"rc={r.returncode}"
        env = dict(os.environ, VERIF_REPO=scratch, VERIF_WORKERS=str(workers))
        cmd = [os.path.join(core.VERIF_DIR, "check"), m["property"], "--tier", "quick"]
        if runs:
            cmd += ["--runs", str(runs)]
        # the evidence and replay files of a mutant run must not overwrite the real ones
        env["VERIF_EVIDENCE_DIR"] = os.path.join(scratch, "_evidence")
        env["VERIF_REPLAY_DIR"] = os.path.join(scratch, "_replays")
        r = subprocess.run(cmd, capture_output=True, text=True, env=env, timeout=3600)
        viol = [l for l in r.stdout.splitlines() if l.startswith("VIOLATION")]
        detail = [l for l in r.stdout.splitlines() if "violation signature" in l]
        return dict(id=m["id"], property=m["property"], rc=r.returncode, detected=(r.returncode == 1 and bool(viol)),
                    n_viol=len(viol), first=(detail[0][:260] if detail else r.stdout[-300:]), tests=tests,
                    secs=round(time.time() - t0, 1))
    finally:
        shutil.rmtree(scratch, ignore_errors=True)


def sensitivity(argv):
    from selftest.mutants import MUTANTS

    ap = argparse.ArgumentParser()
    ap.add_argument("--only", default=None)
    ap.add_argument("--property", default=None)
    ap.add_argument("--runs", type=int, default=None)
    ap.add_argument("--with-tests", action="store_true")
    ap.add_argument("--jobs", type=int, default=4)
    a = ap.parse_args(argv)
    ms = MUTANTS
    if a.only:
        want = set(a.only.split(","))
        ms = [m for m in ms if m["id"] in want]
    if a.property:
        ms = [m for m in ms if m["property"] in a.property.split(",")]
    workers = max(2, (os.cpu_count() or 4) // a.jobs)
    missed = 0
    with ThreadPoolExecutor(max_workers=a.jobs) as ex:
        for res in ex.map(lambda m: run_mutant(m, a.runs, a.with_tests, workers), ms):
            flag = "DETECTED" if res["detected"] else "MISSED"
            if not res["detected"]:
                missed += 1
            record_result(res, next(m["what"] for m in ms if m["id"] == res["id"]))
            print(f"[sensitivity] {res['id']:36} {flag:8} rc={res['rc']} {res['secs']}s tests={res['tests']} :: {res['first']}",
                  flush=True)
    print(f"[sensitivity] {len(ms) - missed}/{len(ms)} mutants detected")
    return 1 if missed else 0


def record_result(res, what):
    """Merge one mutant result into selftest/results.json (kept for the catch matrix in DESIGN.md)."""
    path = os.path.join(core.VERIF_DIR, "selftest", "results.json")
    try:
        data = json.load(open(path, encoding="utf-8"))
    except Exception:
        data = {}
    data[res["id"]] = dict(property=res["property"], what=what, detected=res["detected"], exit=res["rc"],
                           first_signature=(res["first"].split("violation signature=")[1].split(" ")[0]
                                            if "violation signature=" in res["first"] else ""),
                           tests=res["tests"], secs=res["secs"], at=time.strftime("%Y-%m-%d %H:%M"))
    with open(path, "w", encoding="utf-8") as f:
        json.dump(data, f, ensure_ascii=False, indent=1, sort_keys=True)


def main(argv):
    if not argv:
        print(__doc__)
        return 2
    if argv[0] == "digest":
        return digest_cmd(argv[1:])
    if argv[0] == "determinism":
        return determinism(argv[1:])
    if argv[0] == "sensitivity":
        return sensitivity(argv[1:])
    print(__doc__)
    return 2
